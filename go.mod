module verif

go 1.23

require github.com/Fantom-foundation/lachesis-base v0.0.0

replace github.com/Fantom-foundation/lachesis-base => /repo

require (
	github.com/cockroachdb/pebble v0.0.0-20221111210721-1bda21f14fc2
	github.com/emirpasic/gods v1.12.0
	github.com/ethereum/go-ethereum v1.9.22
	github.com/golang/mock v1.6.0
	github.com/hashicorp/golang-lru v0.5.4
	github.com/pkg/errors v0.9.1
	github.com/status-im/keycard-go v0.0.0-20190424133014-d95853db0f48
	github.com/stretchr/testify v1.7.2
	github.com/syndtr/goleveldb v1.0.1-0.20210305035536-64b5b1c73954
)

require (
	github.com/DataDog/zstd v1.4.5 // indirect
	github.com/beorn7/perks v1.0.1 // indirect
	github.com/cespare/xxhash/v2 v2.1.2 // indirect
	github.com/cockroachdb/errors v1.8.1 // indirect
	github.com/cockroachdb/logtags v0.0.0-20190617123548-eb05cc24525f // indirect
	github.com/cockroachdb/redact v1.0.8 // indirect
	github.com/cockroachdb/sentry-go v0.6.1-cockroachdb.2 // indirect
	github.com/davecgh/go-spew v1.1.1 // indirect
	github.com/gogo/protobuf v1.3.2 // indirect
	github.com/golang/protobuf v1.5.2 // indirect
	github.com/golang/snappy v0.0.4 // indirect
	github.com/klauspost/compress v1.11.13 // indirect
	github.com/kr/pretty v0.2.1 // indirect
	github.com/kr/text v0.2.0 // indirect
	github.com/matttproud/golang_protobuf_extensions v1.0.2-0.20181231171920-c182affec369 // indirect
	github.com/niemeyer/pretty v0.0.0-20200227124842-a10e7caefd8e // indirect
	github.com/pmezard/go-difflib v1.0.0 // indirect
	github.com/prometheus/client_golang v1.12.0 // indirect
	github.com/prometheus/client_model v0.2.1-0.20210607210712-147c58e9608a // indirect
	github.com/prometheus/common v0.32.1 // indirect
	github.com/prometheus/procfs v0.7.3 // indirect
	golang.org/x/crypto v0.0.0-20200622213623-75b288015ac9 // indirect
	golang.org/x/exp v0.0.0-20200513190911-00229845015e // indirect
	golang.org/x/sys v0.0.0-20220114195835-da31bd327af9 // indirect
	google.golang.org/protobuf v1.27.1 // indirect
	gopkg.in/check.v1 v1.0.0-20200227125254-8fa46927fb4f // indirect
	gopkg.in/yaml.v3 v3.0.1 // indirect
)
