module verif

go 1.23

require (
	github.com/Fantom-foundation/lachesis-base v0.0.0
	github.com/ethereum/go-ethereum v1.9.22
)

require golang.org/x/crypto v0.0.0-20200622213623-75b288015ac9 // indirect

replace github.com/Fantom-foundation/lachesis-base => /repo
