module verif

go 1.23

require (
	github.com/Fantom-foundation/lachesis-base v0.0.0
	github.com/ethereum/go-ethereum v1.9.22
)

require (
	github.com/emirpasic/gods v1.12.0 // indirect
	github.com/pkg/errors v0.9.1 // indirect
	github.com/status-im/keycard-go v0.0.0-20190424133014-d95853db0f48 // indirect
	golang.org/x/crypto v0.0.0-20200622213623-75b288015ac9 // indirect
)

replace github.com/Fantom-foundation/lachesis-base => /repo
