#!/usr/bin/env python3
# validates MANIFEST.json and every evidence file against the schemas
import json, sys, glob
import jsonschema
ms = json.load(open('/root/.vp/MANIFEST.schema.json'))
es = json.load(open('/root/.vp/EVIDENCE.schema.json'))
m = json.load(open('/verif/MANIFEST.json'))
jsonschema.validate(m, ms)
ids = [json.loads(l)['id'] for l in open('/verif/properties.jsonl')]
claimed = [c['property_id'] for c in m['checks']]
na = [c['property_id'] for c in m.get('not_applicable', [])]
assert sorted(claimed + na) == sorted(ids), (set(ids) - set(claimed) - set(na), set(claimed) & set(na))
bad = 0
for c in m['checks']:
    f = c['evidence_file']
    try:
        e = json.load(open(f))
        jsonschema.validate(e, es)
        assert e['property_id'] == c['property_id']
        assert e['level'] == c['level_claimed']['category'], (e['level'], c['level_claimed']['category'])
    except Exception as ex:
        bad += 1
        print('BAD', f, str(ex)[:300])
print('manifest ok; checks', len(claimed), 'n/a', len(na), 'bad evidence', bad)
sys.exit(1 if bad else 0)
