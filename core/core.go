// Package core is the shared runtime of every check: tier/seed handling, evidence files,
// known-findings classification, replay artefacts and a small parallel-for.
package core

import (
	"bufio"
	"encoding/json"
	"flag"
	"hash/fnv"
	"fmt"
	"os"
	"path/filepath"
	"runtime"
	"sort"
	"strconv"
	"strings"
	"sync"
	"sync/atomic"
	"time"
)

const Root = "/verif"

type Ctx struct {
	ID     string
	Tier   string // quick | thorough
	Seed   int64
	Level  string
	Replay string // --replay path (optional)
	start  time.Time

	mu          sync.Mutex
	cov         map[string]interface{}
	samples     []interface{}
	assumptions []string
	violations  int
	known       map[string]string // signature -> text
	knownHit    map[string]bool
	vioSigs     map[string]bool
	counters    map[string]*int64
	fast        sync.Map
	distinct    map[string]map[string]struct{}
	deadline    time.Time
	worker      bool
	shard       int
	nshards     int
	workDir     string
	qseq        int
	vioRecs     []vioRec
	capped      atomic.Bool
}

// New parses flags (--tier, --replay) and the environment (VERIF_TIER, VERIF_SEED).
func New(id, level string) *Ctx { return newCtx(id, level, true) }

// NewSingle is New without process sharding (the caller parallelises by itself).
func NewSingle(id, level string) *Ctx { return newCtx(id, level, false) }

func newCtx(id, level string, sharded bool) *Ctx {
	tier := flag.String("tier", "", "quick|thorough")
	replay := flag.String("replay", "", "replay file")
	budget := flag.Duration("budget", 0, "wall-clock budget (0 = tier default); hitting it ends the run with exhaustive:false, exit 0")
	flag.Parse()
	t := *tier
	if t == "" {
		t = os.Getenv("VERIF_TIER")
	}
	if t != "thorough" {
		t = "quick"
	}
	seed, _ := strconv.ParseInt(os.Getenv("VERIF_SEED"), 10, 64)
	c := &Ctx{ID: id, Tier: t, Seed: seed, Level: level, Replay: *replay, start: time.Now(),
		cov: map[string]interface{}{}, known: map[string]string{}, knownHit: map[string]bool{},
		vioSigs: map[string]bool{}, counters: map[string]*int64{}, distinct: map[string]map[string]struct{}{}}
	b := *budget
	if b == 0 {
		if t == "quick" {
			b = 4 * time.Minute
		} else {
			b = 25 * time.Minute
		}
	}
	c.deadline = c.start.Add(b)
	c.loadKnown()
	if w := os.Getenv("VERIF_WORKER"); w != "" {
		fmt.Sscanf(w, "%d/%d", &c.shard, &c.nshards)
		c.worker = true
		c.workDir = os.Getenv("VERIF_WORKDIR")
		return c
	}
	if sharded {
		c.runWorkers() // never returns
	}
	return c
}

func (c *Ctx) Quick() bool { return c.Tier == "quick" }

// OutOfBudget reports whether the wall-clock budget is used up. Explorers poll it between
// units of work; when it fires they stop, and the evidence says exhaustive:false. Wall-clock
// time is never an oracle.
func (c *Ctx) OutOfBudget() bool {
	if time.Now().After(c.deadline) {
		c.capped.Store(true)
		return true
	}
	return false
}
func (c *Ctx) Capped() bool { return c.capped.Load() }

func (c *Ctx) loadKnown() {
	f, err := os.Open(filepath.Join(Root, "known_findings.txt"))
	if err != nil {
		return
	}
	defer f.Close()
	sc := bufio.NewScanner(f)
	for sc.Scan() {
		line := strings.TrimSpace(sc.Text())
		if !strings.HasPrefix(line, "finding:") {
			continue // "fixed:" entries and comments suppress nothing
		}
		fields := strings.Fields(line)
		var pid, sig string
		for _, fl := range fields {
			if strings.HasPrefix(fl, "property=") {
				pid = strings.TrimPrefix(fl, "property=")
			}
			if strings.HasPrefix(fl, "sig=") {
				sig = strings.TrimPrefix(fl, "sig=")
			}
		}
		if pid == c.ID && sig != "" {
			c.known[sig] = line
		}
	}
}

// Count adds n to a named coverage counter (thread-safe).
func (c *Ctx) Count(name string, n int64) {
	if p, ok := c.fast.Load(name); ok {
		atomic.AddInt64(p.(*int64), n)
		return
	}
	c.mu.Lock()
	p := c.counters[name]
	if p == nil {
		p = new(int64)
		c.counters[name] = p
		c.fast.Store(name, p)
	}
	c.mu.Unlock()
	atomic.AddInt64(p, n)
}

func (c *Ctx) Get(name string) int64 {
	c.mu.Lock()
	defer c.mu.Unlock()
	if p := c.counters[name]; p != nil {
		return atomic.LoadInt64(p)
	}
	return 0
}

// Distinct records key in the named set; the set size is reported as coverage[name].
func (c *Ctx) Distinct(name, key string) bool {
	if len(key) > 16 {
		h := fnv.New128a()
		h.Write([]byte(key))
		key = string(h.Sum(nil))
	}
	c.mu.Lock()
	defer c.mu.Unlock()
	m := c.distinct[name]
	if m == nil {
		m = map[string]struct{}{}
		c.distinct[name] = m
	}
	if _, ok := m[key]; ok {
		return false
	}
	m[key] = struct{}{}
	return true
}

func (c *Ctx) DistinctN(name string) int64 {
	c.mu.Lock()
	defer c.mu.Unlock()
	return int64(len(c.distinct[name]))
}

func (c *Ctx) Set(key string, v interface{}) {
	c.mu.Lock()
	c.cov[key] = v
	c.mu.Unlock()
}

// Sample keeps up to 8 written-out cases for the evidence file.
func (c *Ctx) Sample(v interface{}) {
	c.mu.Lock()
	if len(c.samples) < 8 {
		c.samples = append(c.samples, v)
	}
	c.mu.Unlock()
}

func (c *Ctx) Assume(s string) {
	c.mu.Lock()
	c.assumptions = append(c.assumptions, s)
	c.mu.Unlock()
}

// Violation reports a property violation with a signature. Signatures listed in
// known_findings.txt print KNOWN-FINDING (once) and do not fail the run; all others write a
// replay artefact and print the VIOLATION line. At most 5 distinct unlisted signatures
// are written out.
func (c *Ctx) Violation(sig string, replay interface{}, format string, args ...interface{}) {
	msg := fmt.Sprintf(format, args...)
	c.mu.Lock()
	defer c.mu.Unlock()
	if c.worker {
		c.violations++
		if len(c.vioRecs) < 20 {
			for _, r := range c.vioRecs {
				if r.Sig == sig {
					return
				}
			}
			rb, _ := json.Marshal(replay)
			c.vioRecs = append(c.vioRecs, vioRec{sig, rb, msg})
		}
		return
	}
	if line, ok := c.known[sig]; ok {
		if !c.knownHit[sig] {
			c.knownHit[sig] = true
			fmt.Printf("KNOWN-FINDING: property=%s sig=%s %s\n", c.ID, sig, msg)
			_ = line
		}
		return
	}
	c.violations++
	if c.vioSigs[sig] || len(c.vioSigs) >= 5 {
		return
	}
	c.vioSigs[sig] = true
	dir := filepath.Join(Root, "replays")
	if d := os.Getenv("VERIF_REPLAY_DIR"); d != "" {
		dir = d // seed sweeps keep their artefacts apart from the registered checks' ones
	}
	os.MkdirAll(dir, 0o755)
	path := filepath.Join(dir, fmt.Sprintf("%s-%d.json", c.ID, len(c.vioSigs)))
	b, _ := json.MarshalIndent(map[string]interface{}{"property": c.ID, "signature": sig, "message": msg, "replay": replay}, "", " ")
	os.WriteFile(path, b, 0o644)
	fmt.Printf("VIOLATION property=%s replay=%s\n", c.ID, path)
	fmt.Printf("  signature=%s\n  %s\n", sig, msg)
}

func (c *Ctx) Violations() int {
	c.mu.Lock()
	defer c.mu.Unlock()
	return c.violations
}

// Finish writes the evidence file and exits with the contract's status.
func (c *Ctx) Finish() {
	if c.worker {
		c.finishWorker()
	}
	c.mu.Lock()
	cov := c.cov
	for k, p := range c.counters {
		cov[k] = atomic.LoadInt64(p)
	}
	for k, m := range c.distinct {
		cov[k] = int64(len(m))
	}
	if len(c.samples) > 0 {
		cov["samples"] = c.samples
	}
	if c.capped.Load() {
		cov["exhaustive"] = false
		cov["cap_hit"] = "wall-clock budget reached; sub-bounds completed are reported in the other keys"
	}
	known := []string{}
	for s := range c.knownHit {
		known = append(known, s)
	}
	sort.Strings(known)
	if len(known) > 0 {
		cov["known_findings_reproduced"] = known
	}
	ev := map[string]interface{}{
		"property_id": c.ID, "tier": c.Tier, "seed": c.Seed, "level": c.Level,
		"coverage": cov, "assumptions": c.assumptions,
		"wall_s": time.Since(c.start).Seconds(), "violations": c.violations,
	}
	if c.assumptions == nil {
		ev["assumptions"] = []string{}
	}
	v := c.violations
	c.mu.Unlock()
	if c.Replay == "" {
		evDir := filepath.Join(Root, "evidence")
		if d := os.Getenv("VERIF_EVIDENCE_DIR"); d != "" {
			evDir = d
		}
		os.MkdirAll(evDir, 0o755)
		b, _ := json.MarshalIndent(ev, "", " ")
		if err := os.WriteFile(filepath.Join(evDir, c.ID+".json"), b, 0o644); err != nil {
			fmt.Fprintln(os.Stderr, "cannot write evidence:", err)
			os.Exit(2)
		}
	}
	fmt.Printf("%s tier=%s violations=%d wall=%.1fs\n", c.ID, c.Tier, v, time.Since(c.start).Seconds())
	if v > 0 {
		os.Exit(1)
	}
	os.Exit(0)
}

// Parallel runs fn(i) for i in [0,n) on all cores; it stops handing out work once the
// budget is exhausted and returns the number of items completed.
func (c *Ctx) Parallel(n int, fn func(i int)) int {
	if c.worker {
		return c.parallelWorker(n, fn)
	}
	workers := runtime.NumCPU()
	if workers > n {
		workers = n
	}
	var next, done int64
	var wg sync.WaitGroup
	for w := 0; w < workers; w++ {
		wg.Add(1)
		go func() {
			defer wg.Done()
			for {
				i := int(atomic.AddInt64(&next, 1)) - 1
				if i >= n || c.OutOfBudget() {
					return
				}
				fn(i)
				atomic.AddInt64(&done, 1)
			}
		}()
	}
	wg.Wait()
	return int(done)
}

// LoadReplay decodes the "replay" member of a replay artefact into v.
func (c *Ctx) LoadReplay(v interface{}) error {
	b, err := os.ReadFile(c.Replay)
	if err != nil {
		return err
	}
	var w struct {
		Replay json.RawMessage `json:"replay"`
	}
	if err := json.Unmarshal(b, &w); err != nil {
		return err
	}
	return json.Unmarshal(w.Replay, v)
}

// Catch runs f and returns the recovered panic value, if any.
func Catch(f func()) (p interface{}) {
	defer func() { p = recover() }()
	f()
	return nil
}
