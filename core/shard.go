package core

import (
	"encoding/base64"
	"encoding/json"
	"fmt"
	"os"
	"os/exec"
	"path/filepath"
	"runtime"
	"sort"
	"strconv"
	"strings"
	"sync/atomic"
	"syscall"
)

// Process sharding.  Measured in this sandbox: allocation-heavy Go code scales negatively
// across goroutines (page-fault/GC cost), while 16 single-threaded processes scale ~linearly.
// The parent re-executes itself as N workers (GOMAXPROCS=1), which claim work items of each
// Parallel() call dynamically through a flock'ed counter file, and merges their coverage.

type vioRec struct {
	Sig    string          `json:"sig"`
	Replay json.RawMessage `json:"replay"`
	Msg    string          `json:"msg"`
}

type workerOut struct {
	Counters    map[string]int64       `json:"counters"`
	Distinct    map[string][]string    `json:"distinct"`
	Cov         map[string]interface{} `json:"cov"`
	Samples     []interface{}          `json:"samples"`
	Assumptions []string               `json:"assumptions"`
	Violations  int                    `json:"violations"`
	Vios        []vioRec               `json:"vios"`
	Capped      bool                   `json:"capped"`
}

func (c *Ctx) Shard() (int, int) {
	if !c.worker {
		return 0, 1
	}
	return c.shard, c.nshards
}

func (c *Ctx) runWorkers() {
	n := runtime.NumCPU()
	if v, err := strconv.Atoi(os.Getenv("VERIF_WORKERS")); err == nil && v > 0 {
		n = v
	}
	if c.Replay != "" {
		n = 1
	}
	dir := filepath.Join(Root, ".work", fmt.Sprintf("shards-%s-%d", c.ID, os.Getpid()))
	os.RemoveAll(dir)
	os.MkdirAll(dir, 0o755)
	defer os.RemoveAll(dir)
	cmds := make([]*exec.Cmd, n)
	for i := 0; i < n; i++ {
		cmd := exec.Command(os.Args[0], os.Args[1:]...)
		cmd.Env = append(os.Environ(), fmt.Sprintf("VERIF_WORKER=%d/%d", i, n), "VERIF_WORKDIR="+dir, "GOMAXPROCS=1", "VERIF_TIER="+c.Tier)
		cmd.Stdout = os.Stdout
		cmd.Stderr = os.Stderr
		if err := cmd.Start(); err != nil {
			fmt.Fprintln(os.Stderr, "cannot start worker:", err)
			os.Exit(2)
		}
		cmds[i] = cmd
	}
	failed := false
	for i, cmd := range cmds {
		if err := cmd.Wait(); err != nil {
			fmt.Fprintf(os.Stderr, "ENGINE-ERROR worker %d: %v\n", i, err)
			failed = true
		}
	}
	if failed {
		os.Exit(2)
	}
	boolAnd := map[string]bool{}
	for i := 0; i < n; i++ {
		b, err := os.ReadFile(filepath.Join(dir, fmt.Sprintf("w%d.json", i)))
		if err != nil {
			fmt.Fprintf(os.Stderr, "ENGINE-ERROR worker %d left no result: %v\n", i, err)
			os.Exit(2)
		}
		var w workerOut
		if err := json.Unmarshal(b, &w); err != nil {
			fmt.Fprintf(os.Stderr, "ENGINE-ERROR worker %d result: %v\n", i, err)
			os.Exit(2)
		}
		for k, v := range w.Counters {
			c.Count(k, v)
		}
		for k, keys := range w.Distinct {
			for _, key := range keys {
				raw, _ := base64.StdEncoding.DecodeString(key)
				c.Distinct(k, string(raw))
			}
		}
		for k, v := range w.Cov {
			if bv, ok := v.(bool); ok {
				if old, seen := boolAnd[k]; seen {
					bv = bv && old
				}
				boolAnd[k] = bv
				c.cov[k] = bv
			} else if _, ok := c.cov[k]; !ok {
				c.cov[k] = v
			}
		}
		for j, s := range w.Samples {
			if j < 2 || i == 0 {
				c.Sample(s)
			}
		}
		if i == 0 {
			c.assumptions = append(c.assumptions, w.Assumptions...)
		}
		if w.Capped {
			c.capped.Store(true)
		}
		extra := w.Violations - len(w.Vios)
		for _, v := range w.Vios {
			var rp interface{}
			json.Unmarshal(v.Replay, &rp)
			c.Violation(v.Sig, rp, "%s", v.Msg)
		}
		_ = extra
	}
	c.cov["worker_processes"] = n
	c.Finish()
}

func (c *Ctx) finishWorker() {
	c.mu.Lock()
	w := workerOut{Counters: map[string]int64{}, Distinct: map[string][]string{}, Cov: c.cov, Samples: c.samples,
		Assumptions: c.assumptions, Violations: c.violations, Vios: c.vioRecs, Capped: c.capped.Load()}
	for k, p := range c.counters {
		w.Counters[k] = atomic.LoadInt64(p)
	}
	for k, m := range c.distinct {
		keys := make([]string, 0, len(m))
		for key := range m {
			keys = append(keys, base64.StdEncoding.EncodeToString([]byte(key)))
		}
		sort.Strings(keys)
		w.Distinct[k] = keys
	}
	c.mu.Unlock()
	b, err := json.Marshal(w)
	if err != nil {
		fmt.Fprintln(os.Stderr, "worker marshal:", err)
		os.Exit(3)
	}
	if err := os.WriteFile(filepath.Join(c.workDir, fmt.Sprintf("w%d.json", c.shard)), b, 0o644); err != nil {
		fmt.Fprintln(os.Stderr, "worker write:", err)
		os.Exit(3)
	}
	os.Exit(0)
}

// parallelWorker: the k-th Parallel call of every worker shares the counter file q<k>;
// items are claimed one at a time under flock, so load is balanced dynamically.
func (c *Ctx) parallelWorker(n int, fn func(i int)) int {
	c.qseq++
	path := filepath.Join(c.workDir, fmt.Sprintf("q%d", c.qseq))
	f, err := os.OpenFile(path, os.O_RDWR|os.O_CREATE, 0o644)
	if err != nil {
		panic(err)
	}
	defer f.Close()
	done := 0
	buf := make([]byte, 32)
	// items are claimed in small batches so that cheap items do not pay one flock round trip each
	batch := n / (c.nshards * 64)
	if batch < 1 {
		batch = 1
	}
	if batch > 64 {
		batch = 64
	}
	for {
		if c.OutOfBudget() {
			return done
		}
		syscall.Flock(int(f.Fd()), syscall.LOCK_EX)
		k, _ := f.ReadAt(buf, 0)
		cur := 0
		if k > 0 {
			cur, _ = strconv.Atoi(strings.TrimSpace(string(buf[:k])))
		}
		end := cur + batch
		if end > n {
			end = n
		}
		if cur < n {
			f.WriteAt([]byte(fmt.Sprintf("%-20d", end)), 0)
		}
		syscall.Flock(int(f.Fd()), syscall.LOCK_UN)
		if cur >= n {
			return done
		}
		for i := cur; i < end; i++ {
			if c.OutOfBudget() {
				return done
			}
			fn(i)
			done++
		}
	}
}

// Lead is true in exactly one process of a sharded run (and in unsharded runs): use it to
// guard serial work that must not be repeated by every worker.
func (c *Ctx) Lead() bool { return !c.worker || c.shard == 0 }

// Mine statically assigns stream item i to one worker (round robin); unsharded runs own everything.
func (c *Ctx) Mine(i int) bool {
	if !c.worker {
		return true
	}
	return i%c.nshards == c.shard
}
