#!/usr/bin/env python3
"""Generates MANIFEST.json from the table below (kept valid at all times)."""
import json, os

ENV = "GOFLAGS=-mod=mod GOPROXY=off GOSUMDB=off GOTOOLCHAIN=local"

# id -> (category, technique, level text, level note, design ref)
CHECKS = {}
def chk(id, cat, tech, text, note, ref):
    CHECKS[id] = (cat, tech, text, note, ref)

exec(open('/verif/manifest_checks.py').read())

props = [json.loads(l) for l in open('/verif/properties.jsonl')]
checks, na = [], []
for p in props:
    i = p['id']
    if i in CHECKS and os.path.isdir('/verif/harness/' + i.lower()):
        cat, tech, text, note, ref = CHECKS[i]
        text = text + EXTRA.get(i, "")
        checks.append({
            "property_id": i,
            "quick_cmd": f"./run.sh {i} quick",
            "thorough_cmd": f"./run.sh {i} thorough",
            "evidence_file": f"/verif/evidence/{i}.json",
            "replay_cmd_template": f"./run.sh {i} quick --replay {{path}}",
            "engine": ref.split(';')[0],
            "level_claimed": {"category": cat, "text": text, "design_ref": ref},
            "level_note": note,
            "technique": tech,
        })
    else:
        na.append({"property_id": i, "reason": NA.get(i, "no bounded-exhaustive check has been built for this property yet (planned in DESIGN.md); nothing is claimed")})

m = {
    "version": 1,
    "setup_cmd": "./setup.sh",
    "hooks": {
        "guard": "verif",
        "enable": "go build -tags verif (plus -overlay files generated under /verif/.work by tools/instrument for the scheduler-based checks); no hook files live in /repo",
        "baseline_off_cmd": "cd /repo && GOFLAGS=-mod=mod go test -vet=off -count=1 -timeout 25m ./...",
        "source_commits": HOOK_COMMITS,
        "add_only": True,
    },
    "engines": ENGINES,
    "checks": checks,
    "not_applicable": na,
    "notes": NOTES,
}
json.dump(m, open('/verif/MANIFEST.json', 'w'), indent=1)
print("checks", len(checks), "not_applicable", len(na))
