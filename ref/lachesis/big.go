package lachesis

// Big is the same naive frame-rule reference for DAGs of more than 64 events (multi-word bitsets).
// It only offers what the frame-rule check needs: ancestry, fork visibility, forkless cause and
// allowed frames.  It deliberately repeats the definitions instead of sharing code with DAG.
type Big struct {
	D   *DAG
	anc [][]uint64
}

func NewBig(d *DAG) *Big {
	n := len(d.Events)
	w := (n + 63) / 64
	b := &Big{D: d, anc: make([][]uint64, n)}
	for i := range d.Events {
		m := make([]uint64, w)
		m[i/64] |= 1 << uint(i%64)
		for _, p := range d.Events[i].Parents {
			for k := range m {
				m[k] |= b.anc[p][k]
			}
		}
		b.anc[i] = m
	}
	return b
}

func (b *Big) in(set []uint64, i int) bool { return set[i/64]&(1<<uint(i%64)) != 0 }

func (b *Big) forkSeen(e, v int) bool {
	seen := map[int]bool{}
	for i := range b.D.Events {
		if !b.in(b.anc[e], i) || b.D.Events[i].Creator != v {
			continue
		}
		if seen[b.D.Events[i].Seq] {
			return true
		}
		seen[b.D.Events[i].Seq] = true
	}
	return false
}

func (b *Big) FC(a, r int) bool {
	d := b.D
	if b.forkSeen(a, d.Events[r].Creator) {
		return false
	}
	var w uint64
	for v := range d.Weights {
		if b.forkSeen(a, v) {
			continue
		}
		for x := range d.Events {
			if d.Events[x].Creator == v && b.in(b.anc[a], x) && b.in(b.anc[x], r) {
				w += uint64(d.Weights[v])
				break
			}
		}
	}
	return w >= d.Quorum()
}

func (b *Big) spFrame(e int) int {
	if sp := b.D.SelfParent(e); sp >= 0 {
		return b.D.Events[sp].Frame
	}
	return 0
}

func (b *Big) isRootOf(e, f int) bool { return b.spFrame(e) < f && f <= b.D.Events[e].Frame }

func (b *Big) quorumOn(e, g int) bool {
	var w uint64
	counted := map[int]bool{}
	for r := range b.D.Events {
		if r == e || !b.in(b.anc[e], r) || !b.isRootOf(r, g) || counted[b.D.Events[r].Creator] {
			continue
		}
		if b.FC(e, r) {
			counted[b.D.Events[r].Creator] = true
			w += uint64(b.D.Weights[b.D.Events[r].Creator])
		}
	}
	return w >= b.D.Quorum()
}

// Allowed: the claim is allowed by the frame rule (no cap: the 100-frame limit applies to Build only).
func (b *Big) Allowed(e, claimed int) bool {
	if b.D.SelfParent(e) < 0 {
		return claimed == 1
	}
	spf := b.spFrame(e)
	if claimed < spf || claimed < 1 {
		return false
	}
	for g := spf; g < claimed; g++ {
		if !b.quorumOn(e, g) {
			return false
		}
	}
	return true
}

// MaxAllowed with Build's cap of 100 frames above the self-parent's.
func (b *Big) MaxAllowed(e int) int {
	if b.D.SelfParent(e) < 0 {
		return 1
	}
	spf := b.spFrame(e)
	f := spf
	for f < spf+100 && b.quorumOn(e, f) {
		f++
	}
	if f == 0 {
		f = 1
	}
	return f
}
