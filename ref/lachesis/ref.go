// Package lachesis is the independent, naive reference implementation of the Lachesis rules used
// as the oracle for the consensus properties.  It is written from the rules (property statements),
// on explicit graphs with bitset ancestry: no vector clocks, no branches, no caches, no incremental
// state.  Every result is a function of a *set* of events (a downward-closed subset of a DAG).
package lachesis

import (
	"fmt"
	"math/bits"
	"sort"
)

// Event of a DAG, referring to other events by index.
type Event struct {
	Creator int   // validator position in DAG.Weights / DAG.IDs
	Seq     int   // 1 for an event without self-parent, else self-parent's Seq+1
	Parents []int // indices of parents; the self-parent comes first when Seq > 1
	Lamport int
	Frame   int // claimed frame
	// Salt distinguishes events that agree in creator, seq and parents (a fork made of two events with
	// identical structure, different payload); 0 for ordinary events
	Salt int
}

// DAG: events are topologically ordered (parents have smaller indices). At most 64 events.
type DAG struct {
	Weights []uint32
	IDs     []uint32 // validator IDs (distinct, non-zero)
	Epoch   uint32
	Events  []Event

	anc       []uint64
	desc      []uint64 // descendants-or-self
	byCreator []uint64
	conflict  []uint64 // other events with the same creator and seq
	forkVals  []uint64 // validators (bitmask) with a fork visible in anc(e)
}

func (d *DAG) N() int { return len(d.Events) }

func (d *DAG) SelfParent(e int) int {
	ev := &d.Events[e]
	if ev.Seq > 1 && len(ev.Parents) > 0 {
		return ev.Parents[0]
	}
	return -1
}

// Anc returns the ancestors-or-self bitmask of e.
func (d *DAG) Anc(e int) uint64 {
	if len(d.anc) != len(d.Events) {
		d.anc = make([]uint64, len(d.Events))
		for i := range d.Events {
			m := uint64(1) << uint(i)
			for _, p := range d.Events[i].Parents {
				if p >= i {
					panic("DAG not topologically ordered")
				}
				m |= d.anc[p]
			}
			d.anc[i] = m
		}
		// derived tables (pure functions of the graph, kept only to make the naive definitions fast)
		n := len(d.Events)
		d.desc = make([]uint64, n)
		d.byCreator = make([]uint64, len(d.Weights))
		d.conflict = make([]uint64, n)
		d.forkVals = make([]uint64, n)
		for i := 0; i < n; i++ {
			d.byCreator[d.Events[i].Creator] |= 1 << uint(i)
			for j := 0; j < n; j++ {
				if d.anc[j]&(1<<uint(i)) != 0 {
					d.desc[i] |= 1 << uint(j)
				}
				if j != i && d.Events[j].Creator == d.Events[i].Creator && d.Events[j].Seq == d.Events[i].Seq {
					d.conflict[i] |= 1 << uint(j)
				}
			}
		}
		for i := 0; i < n; i++ {
			for m := d.anc[i]; m != 0; m &= m - 1 {
				x := bits.TrailingZeros64(m)
				if d.conflict[x]&d.anc[i] != 0 {
					d.forkVals[i] |= 1 << uint(d.Events[x].Creator)
				}
			}
		}
	}
	return d.anc[e]
}

// Invalidate must be called after Events changed.
func (d *DAG) Invalidate() { d.anc = nil }

func (d *DAG) Total() uint64 {
	var t uint64
	for _, w := range d.Weights {
		t += uint64(w)
	}
	return t
}
func (d *DAG) Quorum() uint64 { return d.Total()*2/3 + 1 }

// CanonOrder returns validator positions in canonical order (weight desc, ID asc).
func (d *DAG) CanonOrder() []int {
	o := make([]int, len(d.Weights))
	for i := range o {
		o[i] = i
	}
	sort.Slice(o, func(a, b int) bool {
		if d.Weights[o[a]] != d.Weights[o[b]] {
			return d.Weights[o[a]] > d.Weights[o[b]]
		}
		return d.IDs[o[a]] < d.IDs[o[b]]
	})
	return o
}

// ForkSeen: two different events of validator v with equal Seq among the ancestors-or-self of e.
func (d *DAG) ForkSeen(e, v int) bool {
	d.Anc(e)
	return d.forkVals[e]&(1<<uint(v)) != 0
}

func (d *DAG) forkIn(set uint64, v int) bool {
	seen := map[int]bool{}
	for m := set; m != 0; m &= m - 1 {
		i := bits.TrailingZeros64(m)
		if d.Events[i].Creator != v {
			continue
		}
		if seen[d.Events[i].Seq] {
			return true
		}
		seen[d.Events[i].Seq] = true
	}
	return false
}

// FC(a,b): a is forkless-caused by b.
func (d *DAG) FC(a, b int) bool {
	if d.ForkSeen(a, d.Events[b].Creator) {
		return false
	}
	ancA := d.Anc(a)
	var w uint64
	for v := range d.Weights {
		if d.ForkSeen(a, v) {
			continue
		}
		// some event of v is a descendant-or-self of b and an ancestor-or-self of a
		if ancA&d.desc[b]&d.byCreator[v] != 0 {
			w += uint64(d.Weights[v])
		}
	}
	return w >= d.Quorum()
}

// Clock: merged vector clock of e for validator v.
func (d *DAG) Clock(e, v int) (fork bool, seq int) {
	if d.ForkSeen(e, v) {
		return true, 0
	}
	for m := d.Anc(e); m != 0; m &= m - 1 {
		i := bits.TrailingZeros64(m)
		if d.Events[i].Creator == v && d.Events[i].Seq > seq {
			seq = d.Events[i].Seq
		}
	}
	return false, seq
}

func (d *DAG) spFrame(e int) int {
	if sp := d.SelfParent(e); sp >= 0 {
		return d.Events[sp].Frame
	}
	return 0
}

// IsRootOf: e is registered as a root of frame f (f in (selfParentFrame, frame]).
func (d *DAG) IsRootOf(e, f int) bool {
	return d.spFrame(e) < f && f <= d.Events[e].Frame
}

// quorumOn: the validators owning a frame-g root r (among e's ancestors) with FC(e,r) hold a quorum.
func (d *DAG) quorumOn(e, g int) bool {
	var w uint64
	counted := map[int]bool{}
	for m := d.Anc(e) &^ (1 << uint(e)); m != 0; m &= m - 1 {
		r := bits.TrailingZeros64(m)
		if !d.IsRootOf(r, g) || counted[d.Events[r].Creator] {
			continue
		}
		if d.FC(e, r) {
			counted[d.Events[r].Creator] = true
			w += uint64(d.Weights[d.Events[r].Creator])
		}
	}
	return w >= d.Quorum()
}

// AllowedFrame reports whether claimed is an allowed frame for e (frames of e's ancestors must be set).
func (d *DAG) AllowedFrame(e, claimed int) bool {
	if d.SelfParent(e) < 0 {
		return claimed == 1
	}
	spf := d.spFrame(e)
	if claimed < spf || claimed < 1 {
		return false
	}
	for g := spf; g < claimed; g++ {
		if !d.quorumOn(e, g) {
			return false
		}
	}
	return true
}

// MaxAllowedFrame: the highest allowed frame, at most 100 above the self-parent's.
func (d *DAG) MaxAllowedFrame(e int) int {
	if d.SelfParent(e) < 0 {
		return 1
	}
	spf := d.spFrame(e)
	f := spf
	for f < spf+100 && d.quorumOn(e, f) {
		f++
	}
	if f == 0 {
		f = 1
	}
	return f
}

// AssignFrames sets every event's claimed frame to the maximal allowed one (what Build assigns).
func (d *DAG) AssignFrames() {
	for i := range d.Events {
		d.Events[i].Frame = d.MaxAllowedFrame(i)
	}
}

// ---------------- election

type RootSlot struct {
	Ev    int
	Frame int
}

// Roots of frame f inside the set.
func (d *DAG) Roots(set uint64, f int) []int {
	var out []int
	for m := set; m != 0; m &= m - 1 {
		i := bits.TrailingZeros64(m)
		if d.IsRootOf(i, f) {
			out = append(out, i)
		}
	}
	return out
}

type vote struct {
	yes, decided bool
	observed     int // root of the subject voted for (-1 none)
}

// Stats counts election situations met by the reference (vacuity guards for the explorers).
type Stats struct {
	Ties, SplitVotes, NoDecisions, AtroposNotFirst, LateDecisions, MultiSlotRoots int
}

var Stat Stats

// MutTieNo flips the tie rule (used only by family-sensitivity experiments, never by checks).
var MutTieNo bool

type Decision struct {
	Decided      bool
	Atropos      int
	Inconsistent bool   // deciding roots disagree / two fork roots observed: > 1/3 Byzantine symptoms
	Why          string // description when Inconsistent
}

// Decide runs the election for frame f over the roots inside set.
func (d *DAG) Decide(set uint64, f int) Decision {
	memo := map[[3]int]*vote{}
	incons := ""
	var voteOf func(r, slot, subject int) *vote
	voteOf = func(r, slot, subject int) *vote {
		key := [3]int{r, slot, subject}
		if v, ok := memo[key]; ok {
			return v
		}
		v := &vote{observed: -1}
		memo[key] = v
		round := slot - f
		if round == 1 {
			for _, r0 := range d.Roots(set, f) {
				if d.Events[r0].Creator == subject && d.FC(r, r0) {
					if v.yes && v.observed != r0 {
						incons = "first-round root forkless-caused by two fork roots of one validator"
					}
					v.yes, v.observed = true, r0
				}
			}
			return v
		}
		var yesW, noW uint64
		counted := map[int]bool{}
		for _, rp := range d.Roots(set, slot-1) {
			if !d.FC(r, rp) {
				continue
			}
			c := d.Events[rp].Creator
			if counted[c] {
				incons = "root forkless-caused by two fork roots of one validator"
				continue
			}
			counted[c] = true
			pv := voteOf(rp, slot-1, subject)
			if pv.yes {
				if v.observed >= 0 && pv.observed >= 0 && v.observed != pv.observed {
					incons = "yes votes for two different roots of one validator"
				}
				if pv.observed >= 0 {
					v.observed = pv.observed
				}
				yesW += uint64(d.Weights[c])
			} else {
				noW += uint64(d.Weights[c])
			}
		}
		v.yes = yesW >= noW
		if MutTieNo {
			v.yes = yesW > noW
		}
		if yesW == noW {
			Stat.Ties++
		}
		if yesW > 0 && noW > 0 {
			Stat.SplitVotes++
		}
		if !v.yes {
			v.observed = -1
		}
		v.decided = yesW >= d.Quorum() || noW >= d.Quorum()
		return v
	}
	// per subject: is it decided by some root of the set, and how
	maxFrame := 0
	for m := set; m != 0; m &= m - 1 {
		i := bits.TrailingZeros64(m)
		if d.Events[i].Frame > maxFrame {
			maxFrame = d.Events[i].Frame
		}
	}
	type dec struct {
		known bool
		yes   bool
		obs   int
	}
	decs := make([]dec, len(d.Weights))
	for subject := range d.Weights {
		for slot := f + 2; slot <= maxFrame; slot++ {
			for _, r := range d.Roots(set, slot) {
				v := voteOf(r, slot, subject)
				if !v.decided {
					continue
				}
				if decs[subject].known && (decs[subject].yes != v.yes || (v.yes && decs[subject].obs != v.observed)) {
					incons = fmt.Sprintf("deciding roots disagree on validator #%d", subject)
				}
				if !decs[subject].known {
					decs[subject] = dec{true, v.yes, v.observed}
				}
			}
		}
	}
	res := Decision{Atropos: -1}
	if incons != "" {
		res.Inconsistent, res.Why = true, incons
	}
	for k, v := range d.CanonOrder() {
		if !decs[v].known {
			return res
		}
		if decs[v].yes {
			res.Decided, res.Atropos = true, decs[v].obs
			if k > 0 {
				Stat.AtroposNotFirst++
			}
			return res
		}
		Stat.NoDecisions++
	}
	res.Inconsistent, res.Why = true, "every validator decided no"
	return res
}

// Block as the reference computes it.
type Block struct {
	Frame    int
	Atropos  int
	Cheaters []uint32 // validator IDs in canonical order
	Events   uint64   // events delivered by this block (bitmask)
}

// Blocks returns the blocks decided inside set (frames 1,2,... in sequence). sealAt > 0 stops after
// the block of that frame (the epoch is sealed there).
func (d *DAG) Blocks(set uint64, sealAt int) (blocks []Block, inconsistent string) {
	var delivered uint64
	for f := 1; ; f++ {
		dec := d.Decide(set, f)
		if dec.Inconsistent {
			return blocks, dec.Why
		}
		if !dec.Decided {
			return blocks, ""
		}
		b := Block{Frame: f, Atropos: dec.Atropos}
		b.Events = d.Anc(dec.Atropos) &^ delivered
		delivered |= b.Events
		for _, v := range d.CanonOrder() {
			if d.ForkSeen(dec.Atropos, v) {
				b.Cheaters = append(b.Cheaters, d.IDs[v])
			}
		}
		blocks = append(blocks, b)
		if f == sealAt {
			return blocks, ""
		}
	}
}

// ForkersWeight returns the total weight of validators that have a fork inside set.
func (d *DAG) ForkersWeight(set uint64) uint64 {
	var w uint64
	for v := range d.Weights {
		if d.forkIn(set, v) {
			w += uint64(d.Weights[v])
		}
	}
	return w
}

// Full returns the mask of all events.
func (d *DAG) Full() uint64 {
	if len(d.Events) == 64 {
		return ^uint64(0)
	}
	return 1<<uint(len(d.Events)) - 1
}

// Key is a canonical content key of the DAG (independent of event numbering).
func (d *DAG) Key() string {
	hs := d.ContentHashes()
	s := append([]string{}, hs...)
	sort.Strings(s)
	return fmt.Sprint(d.Weights, d.IDs, s)
}

// ContentHashes: per event a string determined by (creator, seq, frame, parents' hashes in order).
func (d *DAG) ContentHashes() []string {
	hs := make([]string, len(d.Events))
	for i, e := range d.Events {
		ps := make([]string, len(e.Parents))
		for k, p := range e.Parents {
			ps[k] = hs[p]
		}
		if len(ps) > 1 {
			rest := ps[1:]
			if e.Seq == 1 { // no self-parent: order of all parents is irrelevant for content
				rest = ps
			}
			sort.Strings(rest)
		}
		hs[i] = fmt.Sprintf("(%d.%d.%d%v)", e.Creator, e.Seq, e.Frame, ps)
		if e.Salt != 0 {
			hs[i] += fmt.Sprintf("#%d", e.Salt)
		}
	}
	return hs
}

func (d *DAG) String() string {
	s := fmt.Sprintf("weights=%v ids=%v:", d.Weights, d.IDs)
	for i, e := range d.Events {
		salt := ""
		if e.Salt != 0 {
			salt = fmt.Sprintf(" salt%d", e.Salt)
		}
		s += fmt.Sprintf(" e%d{v%d seq%d f%d p%v%s}", i, e.Creator, e.Seq, e.Frame, e.Parents, salt)
	}
	return s
}

// Clone returns a deep copy.
func (d *DAG) Clone() *DAG {
	n := &DAG{Weights: append([]uint32{}, d.Weights...), IDs: append([]uint32{}, d.IDs...), Epoch: d.Epoch}
	n.Events = make([]Event, len(d.Events))
	for i, e := range d.Events {
		e.Parents = append([]int{}, e.Parents...)
		n.Events[i] = e
	}
	return n
}
