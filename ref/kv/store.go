// Package kv is the boring reference key-value store: a map with sorted iteration.  It is used
// (a) as the oracle for the storage properties and (b) as the "underlying"/"disk" store beneath
// the repository's wrappers, optionally logging every durable operation (for crash enumeration).
package kv

import (
	"bytes"
	"errors"
	"sort"
	"strings"

	"github.com/Fantom-foundation/lachesis-base/kvdb"
)

// Op is one durable operation as seen by the disk.
type Op struct {
	DB    string
	Kind  string // "put" | "del" | "batch" | "drop" | "create"
	Key   string
	Val   string
	Batch []Op
}

// Log receives durable operations (nil = no logging).
type Log struct {
	Ops []Op
}

type Store struct {
	Name    string
	M       map[string][]byte
	Log     *Log
	Closed  bool
	Dropped bool
	OnDrop  func()
	// Compactions records Compact calls (for C24).
	Compactions [][2][]byte
	FailWrites  bool
}

func New() *Store { return &Store{M: map[string][]byte{}} }

var ErrClosed = errors.New("refkv: closed")
var ErrFail = errors.New("refkv: injected write failure")

func cp(b []byte) []byte {
	if b == nil {
		return nil
	}
	return append([]byte{}, b...)
}

func (s *Store) Has(key []byte) (bool, error) {
	_, ok := s.M[string(key)]
	return ok, nil
}
func (s *Store) Get(key []byte) ([]byte, error) {
	v, ok := s.M[string(key)]
	if !ok {
		return nil, nil
	}
	return cp(v), nil
}
func (s *Store) Put(key, value []byte) error {
	if s.FailWrites {
		return ErrFail
	}
	if value == nil {
		value = []byte{}
	}
	s.M[string(key)] = cp(value)
	if s.Log != nil {
		s.Log.Ops = append(s.Log.Ops, Op{DB: s.Name, Kind: "put", Key: string(key), Val: string(value)})
	}
	return nil
}
func (s *Store) Delete(key []byte) error {
	if s.FailWrites {
		return ErrFail
	}
	delete(s.M, string(key))
	if s.Log != nil {
		s.Log.Ops = append(s.Log.Ops, Op{DB: s.Name, Kind: "del", Key: string(key)})
	}
	return nil
}
func (s *Store) Stat(string) (string, error) { return "", nil }
func (s *Store) Compact(start, limit []byte) error {
	s.Compactions = append(s.Compactions, [2][]byte{cp(start), cp(limit)})
	return nil
}
func (s *Store) Close() error {
	if s.Closed {
		return ErrClosed
	}
	s.Closed = true
	return nil
}
func (s *Store) Drop() {
	s.Dropped = true
	if s.OnDrop != nil {
		s.OnDrop()
	}
}

// Contents returns sorted "k=v" pairs.
func Contents(m map[string][]byte) string {
	keys := make([]string, 0, len(m))
	for k := range m {
		keys = append(keys, k)
	}
	sort.Strings(keys)
	var sb strings.Builder
	for _, k := range keys {
		sb.WriteString(strEsc(k) + "=" + strEsc(string(m[k])) + ";")
	}
	return sb.String()
}

func strEsc(s string) string {
	var sb strings.Builder
	for i := 0; i < len(s); i++ {
		c := s[i]
		if c >= 0x21 && c < 0x7f && c != '=' && c != ';' && c != '\\' {
			sb.WriteByte(c)
		} else {
			sb.WriteString("\\x" + string("0123456789abcdef"[c>>4]) + string("0123456789abcdef"[c&15]))
		}
	}
	return sb.String()
}

// Esc is the printable form of a key/value used in samples and messages.
func Esc(s string) string { return strEsc(s) }

// Range returns the (key,value) pairs of m with the prefix and >= prefix+start, ascending.
func Range(m map[string][]byte, prefix, start []byte) [][2]string {
	var out [][2]string
	from := append(cp(prefix), start...)
	for k, v := range m {
		kb := []byte(k)
		if bytes.HasPrefix(kb, prefix) && bytes.Compare(kb, from) >= 0 {
			out = append(out, [2]string{k, string(v)})
		}
	}
	sort.Slice(out, func(i, j int) bool { return out[i][0] < out[j][0] })
	return out
}

// iterator over a snapshot taken at creation (like LevelDB/Pebble iterators).
type iter struct {
	items [][2]string
	pos   int
}

func (it *iter) Next() bool {
	if it.pos < len(it.items) {
		it.pos++
	}
	return it.pos < len(it.items)
}
func (it *iter) Error() error { return nil }
func (it *iter) Key() []byte {
	if it.pos < 0 || it.pos >= len(it.items) {
		return nil
	}
	return []byte(it.items[it.pos][0])
}
func (it *iter) Value() []byte {
	if it.pos < 0 || it.pos >= len(it.items) {
		return nil
	}
	return []byte(it.items[it.pos][1])
}
func (it *iter) Release() {}

func (s *Store) NewIterator(prefix, start []byte) kvdb.Iterator {
	return &iter{items: Range(s.M, prefix, start), pos: -1}
}

type snap struct {
	Store
}

func (s *snap) Release() {}

func (s *Store) GetSnapshot() (kvdb.Snapshot, error) {
	m := make(map[string][]byte, len(s.M))
	for k, v := range s.M {
		m[k] = cp(v)
	}
	return &snap{Store{M: m}}, nil
}

type batch struct {
	s    *Store
	ops  []Op
	size int
}

func (s *Store) NewBatch() kvdb.Batch { return &batch{s: s} }
func (b *batch) Put(k, v []byte) error {
	if v == nil {
		v = []byte{}
	}
	b.ops = append(b.ops, Op{Kind: "put", Key: string(k), Val: string(v)})
	b.size += len(k) + len(v)
	return nil
}
func (b *batch) Delete(k []byte) error {
	b.ops = append(b.ops, Op{Kind: "del", Key: string(k)})
	b.size += len(k)
	return nil
}
func (b *batch) ValueSize() int { return b.size }
func (b *batch) Reset()         { b.ops = nil; b.size = 0 }
func (b *batch) Write() error {
	if b.s.FailWrites {
		return ErrFail
	}
	for _, o := range b.ops {
		if o.Kind == "put" {
			b.s.M[o.Key] = []byte(o.Val)
		} else {
			delete(b.s.M, o.Key)
		}
	}
	if b.s.Log != nil && len(b.ops) > 0 {
		ops := make([]Op, len(b.ops))
		copy(ops, b.ops)
		for i := range ops {
			ops[i].DB = b.s.Name
		}
		b.s.Log.Ops = append(b.s.Log.Ops, Op{DB: b.s.Name, Kind: "batch", Batch: ops})
	}
	return nil
}
func (b *batch) Replay(w kvdb.Writer) error {
	for _, o := range b.ops {
		var err error
		if o.Kind == "put" {
			err = w.Put([]byte(o.Key), []byte(o.Val))
		} else {
			err = w.Delete([]byte(o.Key))
		}
		if err != nil {
			return err
		}
	}
	return nil
}
