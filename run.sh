#!/bin/bash
# run.sh <ID> <quick|thorough> [extra args]  — rebuilds the check for <ID> from /repo's
# current working tree and runs it.  Exit status and stdout follow the MANIFEST contract.
# VERIF_BUILD_ONLY=1: only build (used by the seed sweep); VERIF_BIN=<name>: name of the binary under .work/bin.
set -u
ID="$1"; TIER="${2:-quick}"; shift; shift || true
cd /verif
export GOFLAGS=-mod=mod GOPROXY=off GOSUMDB=off GOTOOLCHAIN=local
lc=$(echo "$ID" | tr 'A-Z' 'a-z')
BIN=".work/bin/${VERIF_BIN:-$lc}"
mkdir -p .work/bin evidence replays
if [ ! -f go.sum ] || ! cmp -s /repo/go.sum .work/repo.go.sum 2>/dev/null; then
  cat /repo/go.sum go.sum.extra 2>/dev/null | sort -u > go.sum; cp /repo/go.sum .work/repo.go.sum
fi
# the seed sweep (seeds_run.sh) holds this lock exclusively while a seeded change is applied to /repo
exec 7> .work/repo.lock; [ -n "${VERIF_SEED_SWEEP:-}" ] || flock -s 7
OVERLAY=()
if [ -x "harness/$lc/prebuild.sh" ]; then
  ( flock 9; "harness/$lc/prebuild.sh" > .work/prebuild-$lc.log 2>&1 ) 9> .work/prebuild-$lc.lock || { echo "BUILD-FAILED property=$ID (prebuild; see .work/prebuild-$lc.log)"; tail -20 .work/prebuild-$lc.log; exit 2; }
  OVERLAY=(-overlay "/verif/.work/$lc/overlay.json")
fi
if ! go build -tags verif "${OVERLAY[@]}" -o "$BIN" "./harness/$lc/" 2> ".work/build-$lc.log"; then
  echo "BUILD-FAILED property=$ID"; tail -30 ".work/build-$lc.log"; exit 2
fi
flock -u 7
[ -n "${VERIF_BUILD_ONLY:-}" ] && exit 0
exec "$BIN" --tier "$TIER" "$@"
