#!/bin/bash
# run.sh <ID> <quick|thorough> [extra args]  — rebuilds the check for <ID> from /repo's
# current working tree and runs it.  Exit status and stdout follow the MANIFEST contract.
set -u
ID="$1"; TIER="${2:-quick}"; shift; shift || true
cd /verif
export GOFLAGS=-mod=mod GOPROXY=off GOSUMDB=off GOTOOLCHAIN=local
lc=$(echo "$ID" | tr 'A-Z' 'a-z')
mkdir -p .work/bin evidence replays
if [ ! -f go.sum ] || ! cmp -s /repo/go.sum .work/repo.go.sum 2>/dev/null; then
  cat /repo/go.sum go.sum.extra 2>/dev/null | sort -u > go.sum; cp /repo/go.sum .work/repo.go.sum
fi
OVERLAY=()
if [ -x "harness/$lc/prebuild.sh" ]; then
  "harness/$lc/prebuild.sh" > .work/prebuild-$lc.log 2>&1 || { echo "BUILD-FAILED property=$ID (prebuild; see .work/prebuild-$lc.log)"; tail -20 .work/prebuild-$lc.log; exit 2; }
  OVERLAY=(-overlay "/verif/.work/$lc/overlay.json")
fi
if ! go build -tags verif "${OVERLAY[@]}" -o ".work/bin/$lc" "./harness/$lc/" 2> ".work/build-$lc.log"; then
  echo "BUILD-FAILED property=$ID"; tail -30 ".work/build-$lc.log"; exit 2
fi
exec ".work/bin/$lc" --tier "$TIER" "$@"
