#!/bin/bash
# run.sh <ID> <quick|thorough> [extra args]  — rebuilds the check for <ID> from /repo's
# current working tree and runs it.  Exit status and stdout follow the MANIFEST contract.
# VERIF_BUILD_ONLY=1: only build (used by the seed sweep); VERIF_BIN=<name>: name of the binary under .work/bin.
set -u
ID="$1"; TIER="${2:-quick}"; shift; shift || true
cd /verif
export GOFLAGS=-mod=mod GOPROXY=off GOSUMDB=off GOTOOLCHAIN=local
lc=$(echo "$ID" | tr 'A-Z' 'a-z')
BIN=".work/bin/${VERIF_BIN:-$lc}"
mkdir -p .work/bin evidence replays
if [ ! -f go.sum ] || ! cmp -s /repo/go.sum .work/repo.go.sum 2>/dev/null; then
  cat /repo/go.sum go.sum.extra 2>/dev/null | sort -u > go.sum; cp /repo/go.sum .work/repo.go.sum
fi
# the seed sweep (seeds_run.sh) holds this lock exclusively while a seeded change is applied to /repo
exec 7> .work/repo.lock; [ -n "${VERIF_SEED_SWEEP:-}" ] || flock -s 7
OVERLAY=()
if [ -x "harness/$lc/prebuild.sh" ]; then
  ( flock 9; "harness/$lc/prebuild.sh" > .work/prebuild-$lc.log 2>&1 ) 9> .work/prebuild-$lc.lock || { echo "BUILD-FAILED property=$ID (prebuild; see .work/prebuild-$lc.log)"; tail -20 .work/prebuild-$lc.log; exit 2; }
  OVERLAY=(-overlay "/verif/.work/$lc/overlay.json")
fi
if ! go build -tags verif "${OVERLAY[@]}" -o "$BIN" "./harness/$lc/" 2> ".work/build-$lc.log"; then
  echo "BUILD-FAILED property=$ID"; tail -30 ".work/build-$lc.log"; exit 2
fi
flock -u 7
[ -n "${VERIF_BUILD_ONLY:-}" ] && exit 0
if [ "$TIER" != thorough ] || [ -n "${VERIF_NO_PREPASS:-}" ] || [ $# -gt 0 ]; then
  exec "$BIN" --tier "$TIER" "$@"
fi
# thorough = the whole quick tier first (so that a wall-clock cap in the thorough exploration can only ever cut
# work that the quick tier does not do), then the thorough exploration; the quick stage's coverage is embedded
# in the thorough evidence under coverage.quick_stage.
EVD="${VERIF_EVIDENCE_DIR:-/verif/evidence}"
QD=".work/quickstage-$lc-$$"; rm -rf "$QD"; mkdir -p "$QD"
VERIF_EVIDENCE_DIR="/verif/$QD" "$BIN" --tier quick; rc=$?
if [ $rc -ne 0 ]; then
  # a violation (or an engine error) in the quick stage: report it as this run's result
  mkdir -p "$EVD"; [ -f "$QD/$ID.json" ] && jq '.tier="thorough" | .coverage.stage="quick stage of the thorough tier (stopped here)"' "$QD/$ID.json" > "$EVD/$ID.json"
  rm -rf "$QD"; exit $rc
fi
"$BIN" --tier thorough; rc=$?
if [ -f "$QD/$ID.json" ] && [ -f "$EVD/$ID.json" ]; then
  jq --slurpfile q "$QD/$ID.json" '.coverage.quick_stage = ($q[0].coverage | del(.samples)) | .coverage.quick_stage_wall_s = $q[0].wall_s' "$EVD/$ID.json" > "$QD/merged.json" && mv "$QD/merged.json" "$EVD/$ID.json"
fi
rm -rf "$QD"
exit $rc
