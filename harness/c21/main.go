// C21: double-sign guard never permits emission too early.
// Exhaustive product of boundary timestamps (relative to Now and the threshold, incl. zero time
// and values beyond time.Duration's +-292y range) for all five guarded timestamps x thresholds x
// peers; oracle in exact math/big nanosecond arithmetic.
package main

import (
	"fmt"
	"math"
	"math/big"
	"time"

	"github.com/Fantom-foundation/lachesis-base/emitter/doublesign"
	"verif/core"
)

var e9 = big.NewInt(1e9)

func exact(t time.Time) *big.Int {
	v := new(big.Int).Mul(big.NewInt(t.Unix()), e9)
	return v.Add(v, big.NewInt(int64(t.Nanosecond())))
}

func fromExact(v *big.Int) time.Time {
	sec, ns := new(big.Int).DivMod(v, e9, new(big.Int))
	return time.Unix(sec.Int64(), ns.Int64()).UTC()
}

type tsv struct {
	name string
	t    time.Time
}

func stamps(now time.Time, thr time.Duration, thorough bool) []tsv {
	n := exact(now)
	off := func(name string, d *big.Int) tsv { return tsv{name, fromExact(new(big.Int).Add(n, d))} }
	y := new(big.Int).Mul(big.NewInt(365*24*3600), e9)
	th := big.NewInt(int64(thr))
	neg := func(x *big.Int) *big.Int { return new(big.Int).Neg(x) }
	add := func(x *big.Int, k int64) *big.Int { return new(big.Int).Add(x, big.NewInt(k)) }
	base := []tsv{
		{"zero", time.Time{}},
		{"zero-with-location", time.Time{}.In(time.FixedZone("x", 3600))},
		off("now-300y", neg(new(big.Int).Mul(y, big.NewInt(300)))),
		off("now-thr-1ns", add(neg(th), -1)),
		off("now-thr", neg(th)),
		off("now-thr+1ns", add(neg(th), 1)),
		off("now-1ns", big.NewInt(-1)),
		off("now", big.NewInt(0)),
		off("now+1ns", big.NewInt(1)),
		off("now+thr", th),
		off("now+300y", new(big.Int).Mul(y, big.NewInt(300))),
		off("now+5000y", new(big.Int).Mul(y, big.NewInt(5000))),
	}
	if !thorough {
		return base
	}
	maxD := big.NewInt(math.MaxInt64)
	return append(base,
		off("now+thr-1ns", add(th, -1)),
		off("now+thr+1ns", add(th, 1)),
		off("now-maxDuration", neg(maxD)),
		off("now-maxDuration-1ns", add(neg(maxD), -1)),
		off("now+maxDuration", maxD),
		off("now+maxDuration+1ns", add(maxD, 1)),
		off("now-1h", big.NewInt(-3600e9)),
	)
}

func main() {
	c := core.New("C21", "exploration")
	c.Set("rule", "product of 11 boundary timestamps for each of LastConnected,P2PSynced,BecameValidator,ExternalSelfEventCreated,ExternalSelfEventDetected x 6 thresholds x PeersNum {0,1} x 2 Now values; reference in exact big-integer nanoseconds; non-trivial = inputs where some timestamp is within 1ns of the threshold boundary or outside the +-292y Duration range")
	nows := []time.Time{time.Date(2026, 9, 21, 12, 0, 0, 123456789, time.UTC), time.Date(1970, 1, 1, 0, 0, 0, 0, time.UTC)}
	thrs := []time.Duration{-time.Second, 0, 1, time.Hour, math.MaxInt64 - 1, math.MaxInt64}
	thorough := !c.Quick()
	if thorough {
		thrs = append(thrs, time.Second, 10*time.Minute)
		nows = append(nows, time.Date(2200, 1, 1, 0, 0, 0, 999999999, time.UTC))
	}
	nT := len(stamps(nows[0], thrs[0], thorough))
	maxI := big.NewInt(math.MaxInt64)
	type item struct{ ni, ti, a int }
	var items []item
	for ni := range nows {
		for ti := range thrs {
			for a := 0; a < nT; a++ {
				items = append(items, item{ni, ti, a})
			}
		}
	}
	c.Parallel(len(items), func(ii int) {
		it := items[ii]
		now, thr := nows[it.ni], thrs[it.ti]
		ts := stamps(now, thr, thorough)
		nowX := exact(now)
		since := make([]*big.Int, len(ts))
		for i := range ts {
			since[i] = new(big.Int).Sub(nowX, exact(ts[i].t))
		}
		thrB := big.NewInt(int64(thr))
		var evals, nontriv int64
		idx := [5]int{it.a}
		for idx[1] = 0; idx[1] < nT; idx[1]++ {
			for idx[2] = 0; idx[2] < nT; idx[2]++ {
				for idx[3] = 0; idx[3] < nT; idx[3]++ {
					for idx[4] = 0; idx[4] < nT; idx[4]++ {
						for peers := 0; peers < 2; peers++ {
							s := doublesign.SyncStatus{PeersNum: peers, Now: now, Startup: now,
								LastConnected: ts[idx[0]].t, P2PSynced: ts[idx[1]].t, BecameValidator: ts[idx[2]].t,
								ExternalSelfEventCreated: ts[idx[3]].t, ExternalSelfEventDetected: ts[idx[4]].t}
							wait, err := doublesign.SyncedToEmit(s, thr)
							evals++
							synced := !s.P2PSynced.IsZero()
							allOld := true
							maxRem := new(big.Int)
							for k := 0; k < 5; k++ {
								if since[idx[k]].Cmp(thrB) < 0 {
									allOld = false
									rem := new(big.Int).Sub(thrB, since[idx[k]])
									if rem.Cmp(maxRem) > 0 {
										maxRem = rem
									}
								}
							}
							if maxRem.Cmp(maxI) > 0 {
								maxRem = maxI
							}
							desc := func() map[string]interface{} {
								return map[string]interface{}{"now": now.String(), "threshold_ns": int64(thr), "peers": peers,
									"LastConnected": ts[idx[0]].name, "P2PSynced": ts[idx[1]].name, "BecameValidator": ts[idx[2]].name,
									"ExternalSelfEventCreated": ts[idx[3]].name, "ExternalSelfEventDetected": ts[idx[4]].name}
							}
							for k := 0; k < 5; k++ {
								if n := ts[idx[k]].name; n != "zero" && n != "now" && n != "now+thr" {
									nontriv++
									break
								}
							}
							if err == nil {
								if peers == 0 || !synced || !allOld {
									sig := "permitted-too-early"
									for k := 0; k < 5; k++ {
										if since[idx[k]].Cmp(thrB) < 0 && since[idx[k]].Cmp(big.NewInt(math.MinInt64)) < 0 {
											sig = "permitted-too-early/timestamp-beyond-duration-range"
										}
									}
									if sig == "permitted-too-early" && thr > math.MaxInt64/2 {
										sig = "permitted-too-early/threshold-plus-offset-overflows"
									}
									c.Violation(sig, desc(), "emission permitted (wait=%v) although peers=%d synced=%v allTimestampsOldEnough=%v: %v", wait, peers, synced, allOld, desc())
								}
							} else if peers > 0 && synced {
								if allOld {
									c.Violation("refused-though-ready", desc(), "error %v although every condition holds: %v", err, desc())
								} else if big.NewInt(int64(wait)).Cmp(maxRem) != 0 || wait <= 0 {
									sig := "wrong-wait"
									if thr < 0 && int64(wait) == int64(thr)-math.MinInt64 {
										for k := 0; k < 5; k++ {
											if since[idx[k]].Cmp(big.NewInt(math.MinInt64)) < 0 {
												sig = "wrong-wait/negative-threshold-and-timestamp-beyond-duration-range"
											}
										}
									}
									c.Violation(sig, desc(), "wait=%d want %s: %v", int64(wait), maxRem, desc())
								}
							}
						}
					}
				}
			}
		}
		// parallel instance heuristic: created x startup
		for a := 0; a < nT; a++ {
			for b := 0; b < 11; b++ {
				s := doublesign.SyncStatus{Now: now, Startup: ts[a].t, ExternalSelfEventCreated: ts[b].t}
				got := doublesign.DetectParallelInstance(s, thr)
				want := exact(ts[b].t).Cmp(exact(ts[a].t)) >= 0 && since[b].Cmp(thrB) < 0
				evals++
				if got != want {
					c.Violation("parallel-instance", map[string]interface{}{"now": now.String(), "threshold_ns": int64(thr), "startup": ts[a].name, "created": ts[b].name},
						"DetectParallelInstance=%v want %v (startup=%s created=%s thr=%v)", got, want, ts[a].name, ts[b].name, thr)
				}
			}
		}
		c.Count("evaluations", evals)
		c.Count("distinct_nontrivial", nontriv)
	})
	c.Set("exhaustive", !c.Capped())
	c.Sample(map[string]interface{}{"now": nows[0].String(), "threshold": "1h", "LastConnected": "now-thr+1ns", "others": "zero", "expect": "error, wait=1ns"})
	c.Sample(map[string]interface{}{"now": nows[0].String(), "threshold": "1h", "BecameValidator": fmt.Sprint(stamps(nows[0], time.Hour, false)[10].t), "expect": "error, wait=MaxInt64"})
	c.Assume("timestamps carry no monotonic clock reading (constructed with time.Unix)")
	c.Finish()
}
