// C24: tables isolate their key spaces.
// For every pair of prefixes (plus nested tables) the reachable store contents within a depth bound
// are enumerated (BFS with dedup on contents; the table wrapper is stateless so a state is just the
// underlying reference store's contents); every table/raw operation is executed on real table.Table
// objects over the reference store, and each table's complete view is compared with
// { k minus p : k in store, k has prefix p }.  Compaction ranges are checked for all small prefixes.
package main

import (
	"bytes"
	"fmt"
	"sort"

	"github.com/Fantom-foundation/lachesis-base/kvdb"
	"github.com/Fantom-foundation/lachesis-base/kvdb/table"
	"verif/core"
	"verif/ref/kv"
)

type tdef struct {
	name  string
	chain []string // prefixes, outermost first; effective prefix = concatenation
}

func (t tdef) eff() string {
	s := ""
	for _, p := range t.chain {
		s += p
	}
	return s
}

func build(store kvdb.Store, t tdef) kvdb.Store {
	var cur kvdb.Store = store
	for _, p := range t.chain {
		cur = table.New(cur, []byte(p))
	}
	return cur
}

type op struct {
	T    int // table index, -1 = raw store
	Kind string
	K, V string
	K2   string // batch second key
}

func (o op) String() string {
	return fmt.Sprintf("t%d.%s(%s,%s,%s)", o.T, o.Kind, kv.Esc(o.K), kv.Esc(o.V), kv.Esc(o.K2))
}

type recorder struct{ ops []string }

func (r *recorder) Put(k, v []byte) error {
	r.ops = append(r.ops, "put("+kv.Esc(string(k))+","+kv.Esc(string(v))+")")
	return nil
}
func (r *recorder) Delete(k []byte) error {
	r.ops = append(r.ops, "del("+kv.Esc(string(k))+")")
	return nil
}

var relKeys = []string{"", "a", "\xff", "\x00"}
var itPrefixes = [][]byte{nil, {}, []byte("a"), {0xff}, {0x00}}
var itStarts = [][]byte{nil, []byte("a"), {0xff}, {0x00}}

func strip(m map[string][]byte, p string) map[string][]byte {
	out := map[string][]byte{}
	for k, v := range m {
		if bytes.HasPrefix([]byte(k), []byte(p)) {
			out[k[len(p):]] = v
		}
	}
	return out
}

func checkReader(what string, r kvdb.IteratedReader, want map[string][]byte) string {
	for _, k := range append(append([]string{}, relKeys...), "aa", "b") {
		got, err := r.Get([]byte(k))
		has, err2 := r.Has([]byte(k))
		w, ok := want[k]
		if err != nil || err2 != nil {
			return fmt.Sprintf("%s Get/Has(%q): %v %v", what, k, err, err2)
		}
		if has != ok || (got != nil) != ok || (ok && !bytes.Equal(got, w)) {
			return fmt.Sprintf("%s Get(%q)=%q nil=%v Has=%v, want present=%v %q", what, k, got, got == nil, has, ok, w)
		}
	}
	for _, p := range itPrefixes {
		for _, s := range itStarts {
			it := r.NewIterator(p, s)
			var got [][2]string
			for it.Next() {
				got = append(got, [2]string{string(it.Key()), string(it.Value())})
			}
			err := it.Error()
			it.Release()
			wantR := kv.Range(want, p, s)
			if err != nil || fmt.Sprint(got) != fmt.Sprint(wantR) {
				return fmt.Sprintf("%s iterate(%q,%q)=%q err=%v, want %q", what, p, s, got, err, wantR)
			}
		}
	}
	return ""
}

func main() {
	c := core.New("C24", "model_checking")
	prefixes := []string{"", "\x00", "a", "a\xff", "\xff", "\xff\xff", "b"}
	depth := 3
	if !c.Quick() {
		depth = 4
	}
	c.Set("depth_bound", depth)
	type scenario struct{ tabs []tdef }
	var scen []scenario
	for _, p1 := range prefixes {
		for _, p2 := range prefixes {
			scen = append(scen, scenario{[]tdef{{"T1", []string{p1}}, {"T2", []string{p2}}, {"N", []string{p1, "a"}}}})
		}
	}
	scen = append(scen, scenario{[]tdef{{"T1", []string{"a", "\xff"}}, {"T2", []string{"a\xff"}}, {"N", []string{"", "", "a"}}}},
		scenario{[]tdef{{"T1", []string{"\xff", "\xff", "\xff"}}, {"T2", []string{"\xff\xff"}}, {"N", []string{"\x00", "\x00"}}}})
	vals := []string{"x", ""}
	c.Parallel(len(scen), func(si int) {
		sc := scen[si]
		var ops []op
		for ti := range sc.tabs {
			for _, k := range relKeys[:3] {
				for _, v := range vals {
					ops = append(ops, op{T: ti, Kind: "put", K: k, V: v})
				}
				ops = append(ops, op{T: ti, Kind: "del", K: k})
			}
			ops = append(ops, op{T: ti, Kind: "batch", K: "a", V: "y", K2: ""}, op{T: ti, Kind: "batch", K: "\xff", V: "", K2: "a"})
		}
		rawKeys := map[string]bool{"": true, "a": true, "\xff": true}
		for _, t := range sc.tabs {
			rawKeys[t.eff()] = true
			rawKeys[t.eff()+"a"] = true
		}
		var rk []string
		for k := range rawKeys {
			rk = append(rk, k)
		}
		sort.Strings(rk)
		for _, k := range rk {
			ops = append(ops, op{T: -1, Kind: "put", K: k, V: "r"}, op{T: -1, Kind: "del", K: k})
		}
		type st struct {
			m    map[string][]byte
			path []op
		}
		seen := map[string]bool{"": true}
		frontier := []st{{map[string][]byte{}, nil}}
		var states, trans int64 = 1, 0
		for len(frontier) > 0 {
			cur := frontier[0]
			frontier = frontier[1:]
			for _, o := range ops {
				store := kv.New()
				for k, v := range cur.m {
					store.M[k] = append([]byte{}, v...)
				}
				model := map[string][]byte{}
				for k, v := range cur.m {
					model[k] = v
				}
				tabs := make([]kvdb.Store, len(sc.tabs))
				for i, t := range sc.tabs {
					tabs[i] = build(store, t)
				}
				// snapshots taken before the op must stay frozen
				snaps := make([]kvdb.Snapshot, len(tabs))
				for i, t := range tabs {
					snaps[i], _ = t.GetSnapshot()
				}
				eff := ""
				var target kvdb.Store = store
				if o.T >= 0 {
					eff = sc.tabs[o.T].eff()
					target = tabs[o.T]
				}
				msg := ""
				switch o.Kind {
				case "put":
					if err := target.Put([]byte(o.K), []byte(o.V)); err != nil {
						msg = "Put: " + err.Error()
					}
					model[eff+o.K] = []byte(o.V)
				case "del":
					if err := target.Delete([]byte(o.K)); err != nil {
						msg = "Delete: " + err.Error()
					}
					delete(model, eff+o.K)
				case "batch":
					b := target.NewBatch()
					b.Put([]byte(o.K), []byte(o.V))
					b.Delete([]byte(o.K2))
					var r recorder
					if err := b.Replay(&r); err != nil || fmt.Sprint(r.ops) != fmt.Sprint([]string{"put(" + kv.Esc(o.K) + "," + kv.Esc(o.V) + ")", "del(" + kv.Esc(o.K2) + ")"}) {
						msg = fmt.Sprintf("batch Replay through table %q gave %v err=%v", eff, r.ops, err)
					}
					if err := b.Write(); err != nil {
						msg = "batch Write: " + err.Error()
					}
					model[eff+o.K] = []byte(o.V)
					delete(model, eff+o.K2)
				}
				trans++
				path := append(append([]op{}, cur.path...), o)
				rep := func() interface{} {
					s := []string{}
					for _, p := range path {
						s = append(s, p.String())
					}
					tp := []string{}
					for _, t := range sc.tabs {
						tp = append(tp, fmt.Sprintf("%s=%q", t.name, t.chain))
					}
					return map[string]interface{}{"tables": tp, "ops": s}
				}
				if msg == "" && kv.Contents(store.M) != kv.Contents(model) {
					msg = fmt.Sprintf("raw store holds {%s}, expected {%s} (a table write touched keys outside its prefix?)", kv.Contents(store.M), kv.Contents(model))
				}
				for i := range tabs {
					if msg != "" {
						break
					}
					msg = checkReader(fmt.Sprintf("table %s%q", sc.tabs[i].name, sc.tabs[i].chain), tabs[i], strip(model, sc.tabs[i].eff()))
					if msg == "" {
						msg = checkReader(fmt.Sprintf("pre-op snapshot of table %s%q", sc.tabs[i].name, sc.tabs[i].chain), snaps[i], strip(cur.m, sc.tabs[i].eff()))
					}
					if msg == "" {
						s2, _ := tabs[i].GetSnapshot()
						msg = checkReader(fmt.Sprintf("snapshot of table %s%q", sc.tabs[i].name, sc.tabs[i].chain), s2, strip(model, sc.tabs[i].eff()))
					}
				}
				if msg != "" {
					c.Violation("table/"+o.Kind, rep(), "%v: %s", rep(), msg)
					continue
				}
				key := kv.Contents(model)
				if !seen[key] && len(path) < depth {
					seen[key] = true
					states++
					frontier = append(frontier, st{model, path})
					if states%3000 == 2 {
						c.Sample(rep())
					}
				} else if !seen[key] {
					seen[key] = true
					states++
				}
			}
		}
		c.Count("states", states)
		c.Count("transitions", trans)
		c.Count("traces_validated_against_impl", trans)
	})

	// ---- compaction ranges
	bs := []byte{0x00, 0x01, 0x7f, 0xfe, 0xff}
	var cps [][]byte
	cps = append(cps, []byte{})
	for _, a := range bs {
		cps = append(cps, []byte{a})
		for _, b := range bs {
			cps = append(cps, []byte{a, b})
		}
	}
	cps = append(cps, []byte{0xff, 0xff, 0xff}, []byte{0x00, 0xff, 0xff}, []byte{0x61, 0xff, 0xff}, []byte{0x00, 0x00, 0x00}, []byte{0xfe, 0xff, 0xff})
	covers := func(start, limit, prefix []byte) bool {
		if bytes.Compare(start, prefix) > 0 {
			return false
		}
		// limit must be greater than every key with the prefix
		return limit == nil || (bytes.Compare(limit, prefix) > 0 && !bytes.HasPrefix(limit, prefix))
	}
	if c.Lead() {
		for _, p := range cps {
			for _, q := range [][]byte{nil, {}, {0xff}, {0x00}, []byte("a")} {
				store := kv.New()
				var t kvdb.Store = table.New(store, p)
				full := append([]byte{}, p...)
				if q != nil {
					t = table.New(t, q)
					full = append(full, q...)
				}
				t.Compact(nil, nil)
				c.Count("transitions", 1)
				c.Count("compact_cases", 1)
				if len(store.Compactions) != 1 || !covers(store.Compactions[0][0], store.Compactions[0][1], full) {
					c.Violation("compact-range", map[string]interface{}{"prefix": fmt.Sprintf("%x", p), "nested": fmt.Sprintf("%x", q)},
						"Compact(nil,nil) of table with prefix %x (nested %x) asked the store for %x, which does not cover every key with prefix %x", p, q, store.Compactions, full)
				}
				// bounded compaction: [p+s, p+l)
				store2 := kv.New()
				t2 := table.New(store2, full)
				t2.Compact([]byte("a"), []byte("b"))
				if len(store2.Compactions) != 1 || !bytes.Equal(store2.Compactions[0][0], append(append([]byte{}, full...), 'a')) || !bytes.Equal(store2.Compactions[0][1], append(append([]byte{}, full...), 'b')) {
					c.Violation("compact-bounded", fmt.Sprintf("%x", full), "Compact(a,b) of table %x asked for %x", full, store2.Compactions)
				}
			}
		}
		// tables created by MigrateTables behave as table.New with the tag prefix
		type tabs struct {
			A kvdb.Store `table:"a"`
			B kvdb.Store `table:"b"`
		}
		store := kv.New()
		var ts tabs
		table.MigrateTables(&ts, store)
		ts.A.Put([]byte("k"), []byte("1"))
		ts.B.Put([]byte("k"), []byte("2"))
		if kv.Contents(store.M) != "ak=1;bk=2;" {
			c.Violation("migrate-tables", nil, "MigrateTables tables wrote {%s}", kv.Contents(store.M))
		}
	}
	c.Set("exhaustive", !c.Capped())
	c.Set("dedup_argument", "table.Table holds no state besides its prefix and the underlying store, so a state is the reference store's contents; every op is executed on fresh real Table objects over a store initialised to that state")
	c.Set("rule", "all 49 prefix pairs + nested chains; all op sequences to depth_bound over both tables, a nested table and the raw store")
	c.Finish()
}
