// C14: the ordering buffer delivers parents first, once, and releases every push.
//
// (a) Sequential, exhaustive: every DAG shape on N nodes (node i takes any subset of the earlier
// nodes as parents), every permutation of the push order, with extra operations (a duplicate copy,
// an event connected behind the buffer's back) inserted at every position, every limit pair of a
// boundary alphabet, and Check / Process failing at every event (pairs in the thorough tier).
// (b) Concurrent: 2-3 threads pushing the events of small DAGs, a Clear and lock-free readers,
// on the controlled scheduler (deviation bound 2) over the instrumented dagordering + wlru code.
//
// Monitor on the callback stream, per pushed copy (each push uses its own wrapper object, so the
// callbacks identify the copy): Process only when every parent is connected; at most one Process
// per copy and none after its Released; exactly one Released per copy by the time Clear returns;
// Total() within the limits after every push; with sufficient limits and no failure every event
// ends up processed.
package main

import (
	"errors"
	"fmt"
	"math"
	"strings"

	"github.com/Fantom-foundation/lachesis-base/gossip/dagordering"
	"github.com/Fantom-foundation/lachesis-base/hash"
	"github.com/Fantom-foundation/lachesis-base/inter/dag"
	"github.com/Fantom-foundation/lachesis-base/inter/dag/tdag"
	"github.com/Fantom-foundation/lachesis-base/inter/idx"
	"verif/core"
	"verif/mc/sched"
)

// ---- DAG shapes ----------------------------------------------------------------------------

type shape [][]int // parents of node i (indices < i)

func (s shape) String() string {
	var p []string
	for i, ps := range s {
		p = append(p, fmt.Sprintf("%d<-%v", i, ps))
	}
	return strings.Join(p, " ")
}

func allShapes(n int) []shape {
	out := []shape{{}}
	for i := 0; i < n; i++ {
		var next []shape
		for _, s := range out {
			for mask := 0; mask < 1<<uint(i); mask++ {
				var ps []int
				for j := 0; j < i; j++ {
					if mask&(1<<uint(j)) != 0 {
						ps = append(ps, j)
					}
				}
				ns := append(append(shape{}, s...), ps)
				next = append(next, ns)
			}
		}
		out = next
	}
	return out
}

func makeEvents(s shape) []*tdag.TestEvent { return makeEventsL(s, "") }

// makeEventsL: lamports "" = consistent (above every parent's), "flat" = all 1, "reversed" = decreasing: the
// buffer orders by parent hashes only and must not depend on Lamport times (checking them is the job of the
// Check/Process callbacks, which this harness controls)
func makeEventsL(s shape, lamports string) []*tdag.TestEvent {
	evs := make([]*tdag.TestEvent, len(s))
	for i, ps := range s {
		e := &tdag.TestEvent{}
		e.SetEpoch(1)
		e.SetCreator(idx.ValidatorID(1 + i%3))
		e.SetSeq(idx.Event(i + 1))
		e.SetLamport(idx.Lamport(i + 1))
		switch lamports {
		case "flat":
			e.SetLamport(1)
		case "reversed":
			e.SetLamport(idx.Lamport(len(s) - i))
		}
		var hs hash.Events
		for _, p := range ps {
			hs = append(hs, evs[p].ID())
		}
		e.SetParents(hs)
		var tail [24]byte
		tail[0] = byte(i + 1)
		tail[1] = byte(len(s))
		e.SetID(tail)
		e.Name = fmt.Sprintf("e%d", i)
		evs[i] = e
	}
	return evs
}

// ---- one run -----------------------------------------------------------------------------------

type pushCopy struct {
	dag.Event
	ev, tag int
}

type opKind int

const (
	opPush opKind = iota // push a fresh copy of event Ev
	opExt                // connect event Ev behind the buffer's back (only if its parents are connected)
	opClear
)

type op struct {
	K  opKind
	Ev int
}

func (o op) String() string {
	switch o.K {
	case opPush:
		return fmt.Sprintf("push(e%d)", o.Ev)
	case opExt:
		return fmt.Sprintf("connect-externally(e%d)", o.Ev)
	}
	return "clear"
}

type scenario struct {
	Shape       shape
	Ops         []op
	Limit       dag.Metric
	FailCheck   []int // events whose Check fails
	FailProcess []int // events whose Process fails
	// ExtOn = [e, y] (nil = none): while the buffer runs Process(e), the application connects y through
	// another route (if y's parents are connected by then), as a local emitter or a second path would
	ExtOn []int
	// NoReleased: the application installs no Released callback (the per-copy bookkeeping must not depend on it)
	NoReleased bool
	// Lamports: "" consistent, "flat", "reversed" (see makeEventsL)
	Lamports string
}

func (sc scenario) String() string {
	var o []string
	for _, x := range sc.Ops {
		o = append(o, x.String())
	}
	return fmt.Sprintf("dag{%v} limit=%v failCheck=%v failProcess=%v connectDuringProcess=%v ops=[%s]", sc.Shape, sc.Limit, sc.FailCheck, sc.FailProcess, sc.ExtOn, strings.Join(o, " ")) + map[bool]string{true: " (no Released callback)", false: ""}[sc.NoReleased] + map[bool]string{true: " lamports=" + sc.Lamports, false: ""}[sc.Lamports != ""]
}

var errInjected = errors.New("injected failure")

type copyState struct {
	processed, released int
}

// monitor holds the oracle state of one run (sequential or under the scheduler).
type monitor struct {
	sc        scenario
	evs       []*tdag.TestEvent
	byID      map[hash.Event]int
	connected map[int]bool
	copies    []*copyState
	failC     map[int]bool
	failP     map[int]bool
	extUsed   bool
	bad       string // first violation: "signature: text"
	log       []string
}

func (m *monitor) fail(sig, format string, a ...interface{}) {
	if m.bad == "" {
		m.bad = sig + ": " + fmt.Sprintf(format, a...)
	}
}

func newMonitor(sc scenario) (*monitor, *dagordering.EventsBuffer) {
	m := &monitor{sc: sc, evs: makeEventsL(sc.Shape, sc.Lamports), byID: map[hash.Event]int{}, connected: map[int]bool{}, failC: map[int]bool{}, failP: map[int]bool{}}
	for i, e := range m.evs {
		m.byID[e.ID()] = i
	}
	for _, i := range sc.FailCheck {
		m.failC[i] = true
	}
	for _, i := range sc.FailProcess {
		m.failP[i] = true
	}
	cpOf := func(e dag.Event) *pushCopy {
		pc, ok := e.(*pushCopy)
		if !ok {
			m.fail("foreign-object", "callback received an object that was never pushed: %T", e)
			return &pushCopy{Event: e}
		}
		return pc
	}
	cb := dagordering.Callback{
		Process: func(e dag.Event) error {
			pc := cpOf(e)
			st := m.copies[pc.tag]
			m.log = append(m.log, fmt.Sprintf("Process(e%d#%d)", pc.ev, pc.tag))
			for _, p := range m.sc.Shape[pc.ev] {
				if !m.connected[p] {
					m.fail("process-before-parents", "Process(e%d copy %d) while parent e%d is not connected", pc.ev, pc.tag, p)
				}
			}
			if st.released > 0 {
				m.fail("process-after-released", "Process(e%d copy %d) after that copy was reported released", pc.ev, pc.tag)
			}
			if st.processed > 0 {
				m.fail("processed-twice", "Process(e%d copy %d) called a second time for the same pushed copy", pc.ev, pc.tag)
			}
			st.processed++
			if m.failP[pc.ev] {
				return errInjected
			}
			m.connected[pc.ev] = true
			if len(m.sc.ExtOn) == 2 && m.sc.ExtOn[0] == pc.ev && !m.connected[m.sc.ExtOn[1]] {
				y, ok := m.sc.ExtOn[1], true
				for _, p := range m.sc.Shape[y] {
					ok = ok && m.connected[p]
				}
				if ok {
					m.connected[y] = true
					m.extUsed = true
					m.log = append(m.log, fmt.Sprintf("connect-externally(e%d)", y))
				}
			}
			return nil
		},
		Released: func(e dag.Event, peer string, err error) {
			pc := cpOf(e)
			st := m.copies[pc.tag]
			m.log = append(m.log, fmt.Sprintf("Released(e%d#%d,%v)", pc.ev, pc.tag, err != nil))
			if peer != fmt.Sprintf("peer%d", pc.tag) {
				m.fail("wrong-peer", "Released(e%d copy %d) reported peer %q", pc.ev, pc.tag, peer)
			}
			st.released++
			if st.released > 1 {
				m.fail("released-twice", "Released(e%d copy %d) reported twice", pc.ev, pc.tag)
			}
		},
		Get: func(id hash.Event) dag.Event {
			if i, ok := m.byID[id]; ok && m.connected[i] {
				return m.evs[i]
			}
			return nil
		},
		Exists: func(id hash.Event) bool {
			i, ok := m.byID[id]
			return ok && m.connected[i]
		},
		Check: func(e dag.Event, parents dag.Events) error {
			pc := cpOf(e)
			if len(parents) != len(m.sc.Shape[pc.ev]) {
				m.fail("check-parents", "Check(e%d) got %d parents, the event has %d", pc.ev, len(parents), len(m.sc.Shape[pc.ev]))
			}
			for k, p := range parents {
				if p == nil || p.ID() != m.evs[m.sc.Shape[pc.ev][k]].ID() {
					m.fail("check-parents", "Check(e%d) parent %d is not the event's parent", pc.ev, k)
				}
			}
			if m.failC[pc.ev] {
				return errInjected
			}
			return nil
		},
	}
	if sc.NoReleased {
		cb.Released = nil
	}
	buf := dagordering.New(sc.Limit, cb)
	return m, buf
}

func (m *monitor) push(buf *dagordering.EventsBuffer, ev int) {
	tag := len(m.copies)
	m.copies = append(m.copies, &copyState{})
	buf.PushEvent(&pushCopy{Event: m.evs[ev], ev: ev, tag: tag}, fmt.Sprintf("peer%d", tag))
}

func (m *monitor) checkLimit(buf *dagordering.EventsBuffer, after string) {
	t := buf.Total()
	if t.Num > m.sc.Limit.Num || t.Size > m.sc.Limit.Size {
		m.fail("over-limit", "Total()=%v exceeds the limit %v after %s", t, m.sc.Limit, after)
	}
}

func (m *monitor) final(buf *dagordering.EventsBuffer, complete bool) {
	if t := buf.Total(); t.Num != 0 || t.Size != 0 {
		m.fail("not-empty-after-clear", "Total()=%v after Clear()", t)
	}
	for tag, st := range m.copies {
		if st.released != 1 && !m.sc.NoReleased {
			m.fail("release-count", "pushed copy %d was reported released %d times by the time Clear() returned", tag, st.released)
		}
	}
	if complete {
		for i := range m.evs {
			if !m.connected[i] {
				m.fail("not-processed", "limits suffice and nothing fails, yet e%d was never processed", i)
			}
		}
	}
}

// runSeq executes a scenario sequentially. feasible=false if an external connect was not applicable.
func runSeq(sc scenario) (bad string, feasible bool, log []string) {
	m, buf := newMonitor(sc)
	pushed := map[int]bool{}
	for _, o := range sc.Ops {
		switch o.K {
		case opPush:
			m.push(buf, o.Ev)
			pushed[o.Ev] = true
			m.checkLimit(buf, o.String())
		case opExt:
			if m.connected[o.Ev] {
				return "", false, nil
			}
			for _, p := range sc.Shape[o.Ev] {
				if !m.connected[p] {
					return "", false, nil
				}
			}
			m.connected[o.Ev] = true
			m.log = append(m.log, o.String())
		case opClear:
			buf.Clear()
		}
		if m.bad != "" {
			return m.bad, true, m.log
		}
	}
	buf.Clear()
	sufficient := sc.Limit.Num >= idx.Event(len(sc.Ops)) && sc.Limit.Size == math.MaxUint64
	complete := sufficient && len(sc.FailCheck) == 0 && len(sc.FailProcess) == 0 && len(pushed) == len(sc.Shape)
	for _, o := range sc.Ops {
		if o.K == opClear || o.K == opExt {
			complete = false // the statement's completeness clause is about events arriving through the buffer
		}
	}
	m.final(buf, complete && !m.extUsed)
	if len(sc.ExtOn) == 2 && !m.extUsed {
		return "", false, nil
	}
	return m.bad, true, m.log
}

func sig(bad string) string {
	if i := strings.Index(bad, ":"); i > 0 {
		return bad[:i]
	}
	return "failure"
}

func permutations(n int, visit func([]int)) {
	p := make([]int, n)
	for i := range p {
		p[i] = i
	}
	var rec func(k int)
	rec = func(k int) {
		if k == n {
			visit(p)
			return
		}
		for i := k; i < n; i++ {
			p[k], p[i] = p[i], p[k]
			rec(k + 1)
			p[k], p[i] = p[i], p[k]
		}
	}
	rec(0)
}

type seqReplay struct {
	Scenario scenario
}

// freePart: every sequence (not only permutations plus one extra) of pushes and external connects up to a
// length bound, so that several extras combine: e.g. a buffered copy whose parent and then itself are
// connected through another route before a second copy of it arrives.
func freePart(c *core.Ctx, n, maxLen int) {
	shapes := allShapes(n)
	inf := dag.Metric{Num: math.MaxUint32, Size: math.MaxUint64}
	var alpha []op
	for e := 0; e < n; e++ {
		alpha = append(alpha, op{opPush, e}, op{opExt, e})
	}
	c.Parallel(len(shapes)*len(alpha), func(k int) {
		sh := shapes[k/len(alpha)]
		first := alpha[k%len(alpha)]
		var rec func(seq []op)
		rec = func(seq []op) {
			if c.OutOfBudget() {
				return
			}
			pushes := 0
			for _, o := range seq {
				if o.K == opPush {
					pushes++
				}
			}
			if pushes > 0 {
				for _, sc := range []scenario{{Shape: sh, Ops: seq, Limit: inf}, {Shape: sh, Ops: seq, Limit: dag.Metric{Num: 1, Size: math.MaxUint64}}} {
					bad, feasible, log := runSeq(sc)
					if !feasible {
						return // an infeasible external connect: no extension is feasible either
					}
					c.Count("evaluations", 1)
					c.Count("free_sequences", 1)
					c.Count("distinct_nontrivial", 1)
					if bad != "" {
						c.Violation(sig(bad), seqReplay{sc}, "%s\n  scenario: %s\n  callbacks: %s", bad, sc, strings.Join(log, " "))
					}
				}
			}
			if len(seq) == maxLen {
				return
			}
			for _, o := range alpha {
				rec(append(append([]op{}, seq...), o))
			}
		}
		rec([]op{first})
	})
}

func seqPart(c *core.Ctx, n int, extras bool, pairs bool) {
	shapes := allShapes(n)
	c.Parallel(len(shapes), func(si int) {
		sh := shapes[si]
		evs := makeEvents(sh)
		var total uint64
		minSize := uint64(math.MaxUint64)
		for _, e := range evs {
			total += uint64(e.Size())
			if uint64(e.Size()) < minSize {
				minSize = uint64(e.Size())
			}
		}
		limits := []dag.Metric{}
		for _, num := range []idx.Event{0, 1, 2, idx.Event(n), math.MaxUint32} {
			for _, size := range []uint64{0, minSize, total / 2, math.MaxUint64} {
				limits = append(limits, dag.Metric{Num: num, Size: size})
			}
		}
		inf := dag.Metric{Num: math.MaxUint32, Size: math.MaxUint64}
		try := func(sc scenario) {
			bad, feasible, log := runSeq(sc)
			if !feasible {
				return
			}
			c.Count("evaluations", 1)
			if len(log) > 0 && (len(sc.FailCheck)+len(sc.FailProcess)+len(sc.ExtOn) > 0 || sc.Limit != inf || len(sc.Ops) > len(sc.Shape)) {
				c.Count("distinct_nontrivial", 1)
			}
			if bad != "" {
				c.Violation(sig(bad), seqReplay{sc}, "%s\n  scenario: %s\n  callbacks: %s", bad, sc, strings.Join(log, " "))
			}
		}
		permutations(n, func(p []int) {
			if c.OutOfBudget() {
				return
			}
			base := make([]op, n)
			for i, e := range p {
				base[i] = op{opPush, e}
			}
			c.Count("push_orders", 1)
			for _, l := range limits {
				try(scenario{Shape: sh, Ops: append([]op{}, base...), Limit: l})
			}
			for _, lm := range []string{"flat", "reversed"} {
				try(scenario{Shape: sh, Ops: append([]op{}, base...), Limit: inf, Lamports: lm})
				try(scenario{Shape: sh, Ops: append([]op{}, base...), Limit: dag.Metric{Num: 2, Size: math.MaxUint64}, Lamports: lm})
			}
			for i := 0; i < n; i++ {
				try(scenario{Shape: sh, Ops: append([]op{}, base...), Limit: inf, FailCheck: []int{i}})
				try(scenario{Shape: sh, Ops: append([]op{}, base...), Limit: inf, FailProcess: []int{i}})
				try(scenario{Shape: sh, Ops: append([]op{}, base...), Limit: inf, FailProcess: []int{i}, NoReleased: true})
				try(scenario{Shape: sh, Ops: append([]op{}, base...), Limit: dag.Metric{Num: 2, Size: math.MaxUint64}, FailProcess: []int{i}})
				if pairs {
					for j := i + 1; j < n; j++ {
						try(scenario{Shape: sh, Ops: append([]op{}, base...), Limit: inf, FailProcess: []int{i, j}})
						try(scenario{Shape: sh, Ops: append([]op{}, base...), Limit: inf, FailCheck: []int{i}, FailProcess: []int{j}})
						try(scenario{Shape: sh, Ops: append([]op{}, base...), Limit: inf, FailCheck: []int{j}, FailProcess: []int{i}})
					}
				}
			}
			if !extras {
				return
			}
			for pos := 0; pos <= n; pos++ {
				for e := 0; e < n; e++ {
					for _, k := range []opKind{opPush, opExt} {
						ops := append(append(append([]op{}, base[:pos]...), op{k, e}), base[pos:]...)
						try(scenario{Shape: sh, Ops: ops, Limit: inf})
						try(scenario{Shape: sh, Ops: ops, Limit: dag.Metric{Num: 1, Size: math.MaxUint64}})
						try(scenario{Shape: sh, Ops: ops, Limit: dag.Metric{Num: math.MaxUint32, Size: total / 2}})
						for f := 0; f < n; f++ {
							try(scenario{Shape: sh, Ops: ops, Limit: inf, FailProcess: []int{f}})
						}
					}
				}
				ops := append(append(append([]op{}, base[:pos]...), op{K: opClear}), base[pos:]...)
				try(scenario{Shape: sh, Ops: ops, Limit: inf})
			}
			for e := 0; e < n; e++ {
				for y := 0; y < n; y++ {
					if y != e {
						try(scenario{Shape: sh, Ops: append([]op{}, base...), Limit: inf, ExtOn: []int{e, y}})
						try(scenario{Shape: sh, Ops: append([]op{}, base...), Limit: dag.Metric{Num: 2, Size: math.MaxUint64}, ExtOn: []int{e, y}})
					}
				}
			}
		})
		c.Count("dag_shapes", 1)
	})
}

// ---- concurrent part -------------------------------------------------------------------------

type concProgram struct {
	Shape   shape
	Limit   dag.Metric
	Threads [][]op // pushes / clear per thread; a reader thread is added by the harness
	FailP   []int
}

func (p concProgram) String() string {
	var ts []string
	for i, t := range p.Threads {
		var o []string
		for _, x := range t {
			o = append(o, x.String())
		}
		ts = append(ts, fmt.Sprintf("T%d[%s]", i+1, strings.Join(o, " ")))
	}
	return fmt.Sprintf("dag{%v} limit=%v failProcess=%v %s + reader", p.Shape, p.Limit, p.FailP, strings.Join(ts, " "))
}

type concReplay struct {
	Program concProgram
	Choices []int
}

func concBody(p concProgram) func() {
	return func() {
		m, buf := newMonitor(scenario{Shape: p.Shape, Limit: p.Limit, FailProcess: p.FailP})
		var hs []sched.Handle
		for ti, ops := range p.Threads {
			ops := ops
			hs = append(hs, sched.Spawn(fmt.Sprintf("T%d", ti+1), func() {
				for _, o := range ops {
					switch o.K {
					case opPush:
						m.push(buf, o.Ev)
					case opClear:
						buf.Clear()
					}
					if m.bad != "" {
						sched.Fail("%s", m.bad)
					}
				}
			}))
		}
		hs = append(hs, sched.Spawn("reader", func() {
			for i := 0; i < 2; i++ {
				t := buf.Total()
				b := buf.IsBuffered(m.evs[len(m.evs)-1].ID())
				sched.Logf("Total=%v IsBuffered(last)=%v", t, b)
			}
		}))
		sched.WaitAll(hs...)
		m.checkLimit(buf, "all pushes returned")
		buf.Clear()
		m.final(buf, false)
		sched.Logf("%s", strings.Join(m.log, " "))
		if m.bad != "" {
			sched.Fail("%s", m.bad)
		}
	}
}

func concPart(c *core.Ctx, bound int, n int, full bool) {
	var progs []concProgram
	inf := dag.Metric{Num: math.MaxUint32, Size: math.MaxUint64}
	for _, sh := range allShapes(n) {
		// every distribution of a push sequence (a permutation, optionally with one duplicate) over two threads
		permutations(n, func(p []int) {
			seqs := [][]int{append([]int{}, p...)}
			if full {
				for d := 0; d < n; d++ {
					seqs = append(seqs, append(append([]int{}, p...), d))
				}
			} else {
				seqs = append(seqs, append(append([]int{}, p...), p[0]), append(append([]int{}, p...), p[n-1]))
			}
			for _, s := range seqs {
				for mask := 1; mask < 1<<uint(len(s))-1; mask++ {
					var t1, t2 []op
					for i, e := range s {
						if mask&(1<<uint(i)) != 0 {
							t1 = append(t1, op{opPush, e})
						} else {
							t2 = append(t2, op{opPush, e})
						}
					}
					if len(t1) > 2 || len(t2) > 3 || (!full && len(t1) > len(t2)) {
						continue
					}
					progs = append(progs, concProgram{Shape: sh, Limit: inf, Threads: [][]op{t1, t2}})
					progs = append(progs, concProgram{Shape: sh, Limit: inf, Threads: [][]op{t1, t2}, FailP: []int{n - 1}})
					if full || len(s) == n {
						progs = append(progs, concProgram{Shape: sh, Limit: dag.Metric{Num: 1, Size: math.MaxUint64}, Threads: [][]op{t1, t2}})
						progs = append(progs, concProgram{Shape: sh, Limit: inf, Threads: [][]op{t1, t2, {{K: opClear}}}})
					}
				}
			}
		})
	}
	c.Set("concurrent_programs_total", len(progs))
	c.Parallel(len(progs), func(i int) {
		p := progs[i]
		e := &sched.Explorer{Bound: bound, MaxSteps: 20000, Body: concBody(p), VerifyEvery: 499, Stop: c.OutOfBudget}
		logs := map[string]bool{}
		e.Check = func(r sched.Result) bool {
			if r.Failure != "" {
				c.Violation("concurrent/"+sig(r.Failure), concReplay{p, r.Choices}, "%s\n  program: %s\n  schedule: %v\n  log: %s", r.Failure, p, r.Choices, strings.Join(r.Log, " | "))
				return false
			}
			logs[strings.Join(r.Log, "|")] = true
			return true
		}
		e.Run()
		c.Count("evaluations", e.Execs)
		c.Count("concurrent_executions", e.Execs)
		c.Count("scheduling_points", e.Points)
		c.Count("distinct_nontrivial", int64(len(logs)))
		c.Count("concurrent_programs", 1)
		if len(logs) > 1 {
			c.Count("concurrent_programs_with_several_outcomes", 1)
		}
	})
}

func main() {
	c := core.New("C14", "exploration")
	if c.Replay != "" {
		var raw map[string]interface{}
		c.LoadReplay(&raw)
		if _, ok := raw["Choices"]; ok {
			var rp concReplay
			c.LoadReplay(&rp)
			r := sched.Run(rp.Choices, 20000, true, concBody(rp.Program))
			fmt.Println("program:", rp.Program)
			for _, l := range r.Trace {
				fmt.Println("  ", l)
			}
			fmt.Println("log:", strings.Join(r.Log, " | "))
			if r.Failure != "" {
				c.Violation("concurrent/"+sig(r.Failure), rp, "%s", r.Failure)
			}
		} else {
			var rp seqReplay
			c.LoadReplay(&rp)
			bad, _, log := runSeq(rp.Scenario)
			fmt.Println("scenario:", rp.Scenario)
			fmt.Println("callbacks:", strings.Join(log, " "))
			if bad != "" {
				c.Violation(sig(bad), rp, "%s", bad)
			}
		}
		c.Finish()
	}
	if c.Quick() {
		seqPart(c, 2, true, true)
		seqPart(c, 3, true, true)
		seqPart(c, 4, true, false)
		freePart(c, 2, 5)
		freePart(c, 3, 5)
		concPart(c, 2, 3, false)
		c.Set("bounds", "sequential: all DAG shapes with 2-4 nodes x all push orders x extras x limits x failures; concurrent: all 3-node shapes, deviation bound 2")
	} else {
		seqPart(c, 2, true, true)
		seqPart(c, 3, true, true)
		seqPart(c, 4, true, true)
		seqPart(c, 5, true, false)
		freePart(c, 2, 6)
		freePart(c, 3, 7)
		concPart(c, 3, 3, true)
		c.Set("bounds", "sequential: all DAG shapes with 2-5 nodes x all push orders x extras x limits x failures (pairs up to 4 nodes); concurrent: all 3-node shapes, deviation bound 3")
	}
	if c.Lead() {
		c.Set("rule", "evaluations = scenarios executed on the real buffer (one DAG shape, one op sequence, one limit pair, one failure set; concurrent: one schedule of one program); distinct_nontrivial = scenarios with a failure injection, a tight limit or an extra operation (duplicate / external connect / clear) and distinct observation logs of concurrent programs")
		c.Sample(map[string]interface{}{"scenario": scenario{Shape: shape{{}, {0}, {0, 1}}, Ops: []op{{opPush, 1}, {opPush, 2}, {opPush, 0}}, Limit: dag.Metric{Num: math.MaxUint32, Size: math.MaxUint64}, FailProcess: []int{2}}.String(), "what": "diamond-like shape, child pushed before both parents, its Process fails"})
		c.Assume("events are distinguished per pushed copy by a wrapper object carried through the callbacks")
		c.Assume("'handed to processing' is the Process callback; Check calls are not counted as processing")
		c.Assume("Exists/Get answer from the set of events whose Process returned nil or that were connected externally")
		c.Set("exhaustive", true)
	}
	c.Finish()
}
