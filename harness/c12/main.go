// C12: validator sets have a canonical, serialisable form.
// All sequences of <=4 Set() calls over a colliding (ID, weight) alphabet (this contains every
// permutation of every multiset, overwrites and zero-deletes); oracle = plain sort of the final
// non-zero pairs.  Big builder: all combinations of 1-4 stakes from a boundary list.
package main

import (
	"bytes"
	"fmt"
	"math/big"
	"sort"

	"github.com/Fantom-foundation/lachesis-base/inter/idx"
	"github.com/Fantom-foundation/lachesis-base/inter/pos"
	"github.com/ethereum/go-ethereum/rlp"
	"verif/core"
)

type pair struct {
	ID uint32
	W  uint64
}

var ids = []uint32{1, 2, 3, 9}
var weights = []uint64{0, 1, 2, 7, 1 << 30}

const maxTotal = 1<<31 - 1

func refOrder(final map[uint32]uint64) []pair {
	var out []pair
	for id, w := range final {
		if w != 0 {
			out = append(out, pair{id, w})
		}
	}
	sort.Slice(out, func(i, j int) bool {
		if out[i].W != out[j].W {
			return out[i].W > out[j].W
		}
		return out[i].ID < out[j].ID
	})
	return out
}

func compare(c *core.Ctx, what string, seq []pair, vv *pos.Validators, ref []pair) bool {
	bad := func(f string, a ...interface{}) bool {
		c.Violation("canonical-"+what, seq, "%s after Set-sequence %v: %s (set=%s, want %v)", what, seq, fmt.Sprintf(f, a...), vv.String(), ref)
		return false
	}
	if int(vv.Len()) != len(ref) {
		return bad("Len=%d", vv.Len())
	}
	var tot uint64
	sids, sws, idxs := vv.SortedIDs(), vv.SortedWeights(), vv.Idxs()
	if len(sids) != len(ref) || len(sws) != len(ref) || len(idxs) != len(ref) || len(vv.IDs()) != len(ref) {
		return bad("slice lengths")
	}
	for i, p := range ref {
		tot += p.W
		if uint32(sids[i]) != p.ID || uint64(sws[i]) != p.W {
			return bad("position %d holds (%d,%d)", i, sids[i], sws[i])
		}
		if int(vv.GetIdx(idx.ValidatorID(p.ID))) != i || uint32(vv.GetID(idx.Validator(i))) != p.ID || uint64(vv.GetWeightByIdx(idx.Validator(i))) != p.W {
			return bad("index mapping at %d", i)
		}
		if int(idxs[idx.ValidatorID(p.ID)]) != i || uint32(vv.IDs()[i]) != p.ID {
			return bad("Idxs/IDs at %d", i)
		}
		if !vv.Exists(idx.ValidatorID(p.ID)) || uint64(vv.Get(idx.ValidatorID(p.ID))) != p.W {
			return bad("Exists/Get of %d", p.ID)
		}
	}
	for _, id := range append(append([]uint32{}, ids...), 0, 4) {
		in := false
		for _, p := range ref {
			in = in || p.ID == id
		}
		if vv.Exists(idx.ValidatorID(id)) != in || (!in && vv.Get(idx.ValidatorID(id)) != 0) {
			return bad("Exists(%d)", id)
		}
	}
	if uint64(vv.TotalWeight()) != tot {
		return bad("TotalWeight=%d", vv.TotalWeight())
	}
	return true
}

func main() {
	c := core.New("C12", "exploration")
	c.Set("rule", "all Set() call sequences of length 0..4 (thorough: 0..5) over IDs {1,2,3,9} x weights {0,1,2,7,2^30}; a case is non-trivial/distinct per distinct final non-zero (ID,weight) map with >=2 members; big builder: all 1-4 stake tuples from the boundary list")
	var alpha []pair
	for _, id := range ids {
		for _, w := range weights {
			alpha = append(alpha, pair{id, w})
		}
	}
	n := len(alpha)
	// enumerate sequences by first two elements as work items
	type item struct{ a, b int }
	items := []item{{-1, -1}}
	for a := 0; a < n; a++ {
		items = append(items, item{a, -1})
		for b := 0; b < n; b++ {
			items = append(items, item{a, b})
		}
	}
	encByFinal := map[string][]byte{} // per worker: encoding must be a function of the final map
	c.Parallel(len(items), func(ii int) {
		it := items[ii]
		var prefixes [][]pair
		switch {
		case it.a < 0:
			prefixes = [][]pair{{}}
		case it.b < 0:
			prefixes = [][]pair{{alpha[it.a]}}
		default:
			prefixes = append(prefixes, []pair{alpha[it.a], alpha[it.b]})
			for x := 0; x < n; x++ {
				prefixes = append(prefixes, []pair{alpha[it.a], alpha[it.b], alpha[x]})
				for y := 0; y < n; y++ {
					prefixes = append(prefixes, []pair{alpha[it.a], alpha[it.b], alpha[x], alpha[y]})
					if !c.Quick() {
						for z := 0; z < n; z++ {
							prefixes = append(prefixes, []pair{alpha[it.a], alpha[it.b], alpha[x], alpha[y], alpha[z]})
						}
					}
				}
			}
		}
		for _, seq := range prefixes {
			c.Count("evaluations", 1)
			final := map[uint32]uint64{}
			b := pos.NewBuilder()
			for _, p := range seq {
				b.Set(idx.ValidatorID(p.ID), pos.Weight(p.W))
				final[p.ID] = p.W
			}
			ref := refOrder(final)
			var tot uint64
			for _, p := range ref {
				tot += p.W
			}
			var vv *pos.Validators
			pv := core.Catch(func() { vv = b.Build() })
			if tot > maxTotal {
				if pv == nil {
					c.Violation("overflow-accepted", seq, "total %d above the limit accepted", tot)
				}
				c.Count("rejected_overflow", 1)
				continue
			}
			if pv != nil {
				c.Violation("build-panic", seq, "Build panicked on %v: %v", seq, pv)
				continue
			}
			if len(ref) >= 2 {
				c.Distinct("distinct_nontrivial", fmt.Sprint(ref))
			}
			if !compare(c, "Build", seq, vv, ref) {
				continue
			}
			if !compare(c, "Copy", seq, vv.Copy(), ref) || !compare(c, "Builder().Build", seq, vv.Builder().Build(), ref) {
				continue
			}
			// a built set is read-only: mutating a builder derived from it (or from its copy) must not show in it
			for _, m := range []pair{{9, 5}, {1, 0}, {2, 11}, {4, 3}} {
				db := vv.Builder()
				db.Set(idx.ValidatorID(m.ID), pos.Weight(m.W))
				cb := vv.Copy().Builder()
				cb.Set(idx.ValidatorID(m.ID), pos.Weight(m.W))
				if !compare(c, fmt.Sprintf("original-after-derived-builder.Set(%d,%d)", m.ID, m.W), seq, vv, ref) {
					break
				}
				if enc2, _ := rlp.EncodeToBytes(vv); true {
					var dec2 pos.Validators
					if err := rlp.DecodeBytes(enc2, &dec2); err != nil || !compare(c, "rlp-of-original-after-derived-builder.Set", seq, &dec2, ref) {
						break
					}
				}
				// and the derived builder builds the edited set
				want := map[uint32]uint64{}
				for k, v := range final {
					want[k] = v
				}
				want[m.ID] = m.W
				var wt uint64
				for _, p := range refOrder(want) {
					wt += p.W
				}
				if wt <= maxTotal {
					if !compare(c, "derived-builder.Build", append(append([]pair{}, seq...), m), db.Build(), refOrder(want)) {
						break
					}
				}
			}
			enc, err := rlp.EncodeToBytes(vv)
			if err != nil {
				c.Violation("rlp-encode", seq, "encode error %v", err)
				continue
			}
			var dec pos.Validators
			if err := rlp.DecodeBytes(enc, &dec); err != nil {
				c.Violation("rlp-decode", seq, "decode error %v", err)
				continue
			}
			if !compare(c, "rlp-decoded", seq, &dec, ref) {
				continue
			}
			enc2, _ := rlp.EncodeToBytes(&dec)
			if !bytes.Equal(enc, enc2) {
				c.Violation("rlp-fixpoint", seq, "re-encoding differs")
			}
			// a decoded set is a validator set like any other: bytes that list the same pairs in another order, or a
			// validator twice (the last entry wins, as with Set), must decode to the canonical set (or be refused)
			if len(ref) > 0 {
				type wire struct {
					ID     idx.ValidatorID
					Weight pos.Weight
				}
				var rev, dup []wire
				for i := len(ref) - 1; i >= 0; i-- {
					rev = append(rev, wire{idx.ValidatorID(ref[i].ID), pos.Weight(ref[i].W)})
				}
				dup = append(dup, wire{idx.ValidatorID(ref[len(ref)-1].ID), 1})
				for _, p := range ref {
					dup = append(dup, wire{idx.ValidatorID(p.ID), pos.Weight(p.W)})
				}
				for wi, list := range [][]wire{rev, dup} {
					encW, errW := rlp.EncodeToBytes(list)
					var decW pos.Validators
					var derr error
					if pv := core.Catch(func() { derr = rlp.DecodeBytes(encW, &decW) }); pv != nil {
						c.Violation("rlp-decode-panic", seq, "decoding a wire list of the valid set %v panicked: %v", ref, pv)
						break
					}
					if errW == nil && derr == nil {
						if !compare(c, []string{"rlp-decoded-from-reversed-wire-list", "rlp-decoded-from-wire-list-naming-a-validator-twice"}[wi], seq, &decW, ref) {
							break
						}
					}
				}
			}
			key := fmt.Sprint(ref)
			if old, ok := encByFinal[key]; ok {
				if !bytes.Equal(old, enc) {
					c.Violation("rlp-order-dependent", seq, "encoding of the same final set differs between insertion orders")
				}
			} else {
				encByFinal[key] = enc
			}
		}
	})

	// ---- the slice constructors: ArrayToValidators / EqualWeightValidators over every (ids, weights) list of
	// length <= 3 from the alphabet (zero weights must not become members, a repeated ID keeps its last weight)
	{
		var lists [][]pair
		var gen func(cur []pair)
		gen = func(cur []pair) {
			lists = append(lists, append([]pair{}, cur...))
			if len(cur) == 3 {
				return
			}
			for _, a := range alpha {
				gen(append(cur, a))
			}
		}
		gen(nil)
		c.Parallel(len(lists), func(i int) {
			l := lists[i]
			var vids []idx.ValidatorID
			var ws []pos.Weight
			final := map[uint32]uint64{}
			var tot uint64
			for _, p := range l {
				vids = append(vids, idx.ValidatorID(p.ID))
				ws = append(ws, pos.Weight(p.W))
				final[p.ID] = p.W
			}
			ref := refOrder(final)
			for _, p := range ref {
				tot += p.W
			}
			c.Count("evaluations", 1)
			if tot > maxTotal {
				return
			}
			var vv *pos.Validators
			if pv := core.Catch(func() { vv = pos.ArrayToValidators(vids, ws) }); pv != nil {
				c.Violation("array-constructor-panic", l, "ArrayToValidators(%v) panicked: %v", l, pv)
				return
			}
			if !compare(c, "ArrayToValidators", l, vv, ref) || !compare(c, "ArrayToValidators.Copy", l, vv.Copy(), ref) {
				return
			}
			enc, err := rlp.EncodeToBytes(vv)
			var dec pos.Validators
			if err != nil || rlp.DecodeBytes(enc, &dec) != nil || !compare(c, "ArrayToValidators-rlp-decoded", l, &dec, ref) {
				if err != nil {
					c.Violation("rlp-encode", l, "encode error %v", err)
				}
				return
			}
			// equal weights
			eq := map[uint32]uint64{}
			for _, p := range l {
				eq[p.ID] = 3
			}
			if len(eq) > 0 {
				compare(c, "EqualWeightValidators", l, pos.EqualWeightValidators(vids, 3), refOrder(eq))
			}
		})
	}

	// ---- larger sets with many ties (sorting is stable only by construction): 13..40 members, weights from a
	// 3-value pattern, inserted in several orders; canonical order = descending weight, ascending ID
	{
		sizes := []int{12, 13, 14, 20, 33, 40}
		c.Parallel(len(sizes)*3, func(k int) {
			n, pat := sizes[k/3], k%3
			final := map[uint32]uint64{}
			var idsL []uint32
			for i := 0; i < n; i++ {
				id := uint32(1 + (i*7)%n + 100*((i*7)/n))
				id = uint32(i*3 + 1)
				w := uint64(1 + []int{i % 3, (i / 2) % 2, (i * 5) % 4}[pat])
				final[id] = w
				idsL = append(idsL, id)
			}
			ref := refOrder(final)
			for _, order := range []string{"asc", "desc", "stride"} {
				b := pos.NewBuilder()
				for j := 0; j < n; j++ {
					i := j
					switch order {
					case "desc":
						i = n - 1 - j
					case "stride":
						i = (j * 7) % n
						if n%7 == 0 {
							i = (j*5 + 3) % n
						}
					}
					b.Set(idx.ValidatorID(idsL[i]), pos.Weight(final[idsL[i]]))
				}
				c.Count("evaluations", 1)
				vv := b.Build()
				if !compare(c, "large-set/"+order, []pair{{uint32(n), uint64(pat)}}, vv, ref) {
					return
				}
				enc, _ := rlp.EncodeToBytes(vv)
				var dec pos.Validators
				if err := rlp.DecodeBytes(enc, &dec); err != nil || !compare(c, "large-set-rlp/"+order, []pair{{uint32(n), uint64(pat)}}, &dec, ref) {
					return
				}
			}
		})
	}

	// ---- big builder
	two := big.NewInt(2)
	pow := func(k int64) *big.Int { return new(big.Int).Exp(two, big.NewInt(k), nil) }
	stakes := []*big.Int{big.NewInt(0), big.NewInt(1), big.NewInt(2), big.NewInt(3), new(big.Int).Sub(pow(31), big.NewInt(1)), pow(31), pow(32),
		pow(63), new(big.Int).Add(pow(64), big.NewInt(1)), pow(255), pow(256), new(big.Int).Sub(pow(256), big.NewInt(1))}
	ns := len(stakes)
	total := ns + ns*ns + ns*ns*ns + ns*ns*ns*ns
	c.Parallel(total, func(k int) {
		// decode k into a tuple of length 1..4
		var tup []int
		l := 1
		base := ns
		for k >= base {
			k -= base
			base *= ns
			l++
		}
		for i := 0; i < l; i++ {
			tup = append(tup, k%ns)
			k /= ns
		}
		c.Count("evaluations", 1)
		bb := pos.NewBigBuilder()
		sum := new(big.Int)
		for i, si := range tup {
			bb.Set(idx.ValidatorID(i+1), stakes[si])
			sum.Add(sum, stakes[si])
		}
		var vv *pos.Validators
		desc := fmt.Sprint(tup)
		if pv := core.Catch(func() { vv = bb.Build() }); pv != nil {
			c.Violation("big-panic", tup, "big builder panicked on stakes idx %v: %v", tup, pv)
			return
		}
		s := sum.BitLen() - 31
		if s < 0 {
			s = 0
		}
		// minimality of the common shift, as stated
		if new(big.Int).Rsh(sum, uint(s)).Cmp(big.NewInt(maxTotal)) > 0 || (s > 0 && new(big.Int).Rsh(sum, uint(s-1)).Cmp(big.NewInt(maxTotal)) <= 0) {
			panic("reference shift wrong")
		}
		nonzero := 0
		for i, si := range tup {
			want := new(big.Int).Rsh(stakes[si], uint(s))
			got := vv.Get(idx.ValidatorID(i + 1))
			if !want.IsUint64() || uint64(got) != want.Uint64() {
				c.Violation("big-scale", tup, "stakes %s: validator %d weight %d, want stake>>%d = %s", desc, i+1, got, s, want)
				return
			}
			if got != 0 {
				nonzero++
			}
			for j, sj := range tup {
				if stakes[si].Cmp(stakes[sj]) >= 0 && vv.Get(idx.ValidatorID(i+1)) < vv.Get(idx.ValidatorID(j+1)) {
					c.Violation("big-order", tup, "stakes %s: weight order not kept between %d and %d", desc, i+1, j+1)
				}
			}
		}
		if int(vv.Len()) != nonzero {
			c.Violation("big-len", tup, "stakes %s: Len=%d want %d", desc, vv.Len(), nonzero)
		}
		if s > 0 {
			c.Count("big_scaled", 1)
		}
		if nonzero >= 2 {
			c.Distinct("distinct_nontrivial", "big"+desc)
		}
	})
	c.Set("exhaustive", !c.Capped())
	c.Sample(map[string]interface{}{"set_sequence": []pair{{3, 7}, {1, 7}, {3, 0}, {9, 1 << 30}}, "canonical": "[(9,2^30),(1,7)]"})
	c.Sample(map[string]interface{}{"big_stakes": []string{"2^256", "2^64+1", "1"}, "expect": "shift=226, weights [2^30,0->dropped,0->dropped]"})
	c.Finish()
}
