// C18: leechers respect flow control and peer removal.
//
// Both leechers run on the controlled scheduler (instrumented packages: mutexes, wait groups,
// channels, select, tickers on virtual time).
//
// Peer leecher: an environment thread executes every script up to a length bound over
// {tick, chunk received, chunk processed, suspend on/off, done on/off}; the loop goroutine and
// the environment are interleaved in every way within the deviation bound.  Monitor at every
// RequestChunks call: requested - processed <= parallelism, last Suspend() answer was false, Done()
// never answered true before; after "done" the loop goroutine must end by itself.
//
// Base leecher: the session callbacks are a faithful one-session model (candidates = currently
// registered peers, the pick among candidates is an explorer choice); 2 API threads run every pair
// of short scripts over {register, unregister, terminate, sleep one tick} against the ticker loop.
// Monitor: at most one session; after UnregisterPeer(p) returned no session with p is running or
// started (until p registers again); no StartSession after Terminate returned.
package main

import (
	"fmt"
	"sort"
	"strings"
	"time"

	"github.com/Fantom-foundation/lachesis-base/gossip/basestream/basestreamleecher"
	"github.com/Fantom-foundation/lachesis-base/gossip/basestream/basestreamleecher/basepeerleecher"
	"verif/core"
	"verif/mc/sched"
	"verif/mc/vsync"
)

const tick = 10 * time.Millisecond

func sleep(d time.Duration) {
	woken := false
	sched.AddTimer(sched.Now().Add(d), func() { woken = true })
	sched.Block("harness sleep", func() bool { return woken })
}

func sigOf(f string) string {
	if i := strings.Index(f, ":"); i > 0 && i < 60 {
		return f[:i]
	}
	return "failure"
}

// ---- peer leecher ----------------------------------------------------------------------------

type pOp int

const (
	pTick pOp = iota
	pRecv
	pProc
	pSuspOn
	pSuspOff
	pDoneOn
	pDoneOff
	pTick3
	nPOps
)

var pNames = []string{"tick", "chunkReceived", "markProcessed", "suspendOn", "suspendOff", "doneOn", "doneOff", "3ticks"}

type peerProgram struct {
	Parallel int
	Script   []pOp
}

func (p peerProgram) String() string {
	var s []string
	for _, o := range p.Script {
		s = append(s, pNames[o])
	}
	return fmt.Sprintf("peer-leecher parallel=%d script=[%s]", p.Parallel, strings.Join(s, " "))
}

func peerBody(p peerProgram) func() {
	return func() {
		var (
			wg           vsync.WaitGroup
			requested    int
			received     []int
			processed    = map[int]bool{}
			suspend      bool
			done         bool
			lastSuspend  = true // no answer yet: a request before asking is a violation too
			doneReported bool
			nextID       int
		)
		l := basepeerleecher.New(&wg, basepeerleecher.EpochDownloaderConfig{RecheckInterval: tick, DefaultChunkItemsNum: 10, DefaultChunkItemsSize: 1000, ParallelChunksDownload: p.Parallel},
			basepeerleecher.EpochDownloaderCallbacks{
				IsProcessed: func(id interface{}) bool { return processed[id.(int)] },
				RequestChunks: func(maxNum uint32, maxSize uint64, maxChunks uint32) error {
					requested += int(maxChunks)
					nproc := 0
					for _, id := range received {
						if processed[id] {
							nproc++
						}
					}
					sched.Logf("RequestChunks(%d) requested=%d processed=%d", maxChunks, requested, nproc)
					if maxNum != 10 || maxSize != 1000 {
						sched.Fail("wrong-chunk-limits: RequestChunks(%d,%d,..) does not pass the configured chunk limits", maxNum, maxSize)
					}
					if requested-nproc > p.Parallel {
						sched.Fail("window-exceeded: %d chunks requested, %d of the received ones processed: %d requested-but-unprocessed > parallelism %d", requested, nproc, requested-nproc, p.Parallel)
					}
					if lastSuspend {
						sched.Fail("request-while-suspended: RequestChunks called although the last Suspend() answer was true")
					}
					if doneReported {
						sched.Fail("request-after-done: RequestChunks called after Done() had answered true")
					}
					return nil
				},
				Suspend: func() bool { lastSuspend = suspend; return suspend },
				Done: func() bool {
					if done {
						doneReported = true
					}
					return done
				},
			})
		l.Start()
		for _, o := range p.Script {
			switch o {
			case pTick:
				sleep(tick)
			case pTick3:
				sleep(3 * tick)
			case pRecv:
				id := nextID
				nextID++
				received = append(received, id)
				if err := l.NotifyChunkReceived(id); err != nil {
					received = received[:len(received)-1]
				}
			case pProc:
				for _, id := range received {
					if !processed[id] {
						processed[id] = true
						break
					}
				}
			case pSuspOn:
				suspend = true
			case pSuspOff:
				suspend = false
			case pDoneOn:
				done = true
			case pDoneOff:
				done = false
			}
			sched.Point("env step") // lets the loop goroutine interleave between environment steps
		}
		if doneReported {
			// the loop must end by itself: wait for it without asking it to stop
			sleep(5 * tick)
			if wg.VerifCount() != 0 {
				sched.Fail("not-stopped-after-done: Done() answered true but the loop goroutine is still running 5 recheck intervals later")
			}
		}
		l.Stop()
	}
}

// ---- base leecher ----------------------------------------------------------------------------

type bKind int

const (
	bReg bKind = iota
	bUnreg
	bTerm
	bSleep
	bShouldEndOn
	bShouldEndOff
)

type bOp struct {
	K    bKind
	Peer string
}

func (o bOp) String() string {
	switch o.K {
	case bReg:
		return "register(" + o.Peer + ")"
	case bUnreg:
		return "unregister(" + o.Peer + ")"
	case bTerm:
		return "terminate"
	case bSleep:
		return "sleep(1.5 ticks)"
	case bShouldEndOn:
		return "shouldTerminateSession=true"
	}
	return "shouldTerminateSession=false"
}

type baseProgram struct {
	Init    []bOp
	Threads [][]bOp
	// StickyPeer: OngoingSessionPeer keeps naming the peer of the last session after it ended (as an
	// application that stores the session in a struct and only clears its agent does)
	StickyPeer bool
}

func (p baseProgram) String() string {
	f := func(ops []bOp) string {
		var s []string
		for _, o := range ops {
			s = append(s, o.String())
		}
		return strings.Join(s, "; ")
	}
	parts := []string{fmt.Sprintf("base-leecher stickyPeer=%v init[%s]", p.StickyPeer, f(p.Init))}
	for i, t := range p.Threads {
		parts = append(parts, fmt.Sprintf("T%d[%s]", i+1, f(t)))
	}
	return strings.Join(parts, " ")
}

func baseBody(p baseProgram) func() {
	return func() {
		var (
			l           *basestreamleecher.BaseLeecher
			session     string
			lastPeer    string
			shouldEnd   bool
			unregDone   = map[string]bool{} // UnregisterPeer(p) has returned and p did not register again since
			terminated  bool                // Terminate() has returned
			termCalled  bool
			regInFlight = map[string]int{}
		)
		l = basestreamleecher.New(tick, basestreamleecher.Callbacks{
			// every application callback is a scheduling point: callbacks are where a real application spends time,
			// so a check-then-act sequence of callbacks that the leecher does not protect by its lock must be
			// interruptible between the callbacks
			SelectSessionPeerCandidates: func() []string {
				sched.Point("callback SelectSessionPeerCandidates")
				var c []string
				for peer := range l.Peers {
					c = append(c, peer)
				}
				sort.Strings(c)
				return c
			},
			ShouldTerminateSession: func() bool { return shouldEnd },
			StartSession: func(candidates []string) {
				sched.Point("callback StartSession")
				if len(candidates) == 0 {
					sched.Fail("start-without-candidates: StartSession called with no candidates")
				}
				pick := candidates[sched.Choose(len(candidates), "session peer")]
				sched.Logf("StartSession(%s of %v)", pick, candidates)
				if session != "" {
					sched.Fail("two-sessions: StartSession(%s) while the session with %s is still running", pick, session)
				}
				if terminated {
					sched.Fail("session-after-terminate: StartSession(%s) after Terminate() had returned", pick)
				}
				if unregDone[pick] && regInFlight[pick] == 0 {
					sched.Fail("session-with-unregistered-peer: StartSession picked %s after UnregisterPeer(%s) had returned", pick, pick)
				}
				session = pick
				lastPeer = pick
			},
			TerminateSession: func() {
				sched.Point("callback TerminateSession")
				sched.Logf("TerminateSession(%s)", session)
				session = ""
			},
			OngoingSession: func() bool {
				sched.Point("callback OngoingSession")
				return session != ""
			},
			OngoingSessionPeer: func() string {
				if p.StickyPeer {
					return lastPeer
				}
				return session
			},
		})
		do := func(o bOp) {
			switch o.K {
			case bReg:
				regInFlight[o.Peer]++
				l.RegisterPeer(o.Peer)
				unregDone[o.Peer] = false
				regInFlight[o.Peer]--
			case bUnreg:
				l.UnregisterPeer(o.Peer)
				sched.Logf("UnregisterPeer(%s) returned, session=%q", o.Peer, session)
				if regInFlight[o.Peer] == 0 {
					if !hasPeerLocked(l, o.Peer) { // not re-registered concurrently in the meantime
						unregDone[o.Peer] = true
					}
					if session == o.Peer && unregDone[o.Peer] {
						sched.Fail("session-with-unregistered-peer: UnregisterPeer(%s) returned but the session with %s is running", o.Peer, o.Peer)
					}
				}
			case bTerm:
				if termCalled {
					return // Terminate closes a channel: calling it twice is a usage error, not in scope
				}
				termCalled = true
				l.Terminate()
				terminated = true
				if session != "" {
					sched.Fail("session-after-terminate: a session with %s is running after Terminate() returned", session)
				}
			case bSleep:
				sleep(tick * 3 / 2)
			case bShouldEndOn:
				shouldEnd = true
			case bShouldEndOff:
				shouldEnd = false
			}
		}
		l.Start()
		for _, o := range p.Init {
			do(o)
		}
		var hs []sched.Handle
		for i, ops := range p.Threads {
			ops := ops
			hs = append(hs, sched.Spawn(fmt.Sprintf("T%d", i+1), func() {
				for _, o := range ops {
					do(o)
				}
			}))
		}
		sched.WaitAll(hs...)
		sleep(tick * 3 / 2) // one more routine run
		for peer, u := range unregDone {
			if u && session == peer {
				sched.Fail("session-with-unregistered-peer: session with %s running at the end although it was unregistered", peer)
			}
		}
		if !termCalled {
			termCalled = true
			l.Terminate()
			terminated = true
		}
		l.Wg.Wait()
		if session != "" {
			sched.Fail("session-after-terminate: a session with %s is running after the leecher stopped", session)
		}
	}
}

// hasPeerLocked reads the peer table under the leecher's own lock.
func hasPeerLocked(l *basestreamleecher.BaseLeecher, peer string) bool {
	l.Mu.RLock()
	defer l.Mu.RUnlock()
	_, ok := l.Peers[peer]
	return ok
}

// ---- driver ----------------------------------------------------------------------------------

type replay struct {
	Peer    *peerProgram
	Base    *baseProgram
	Choices []int
}

func explore(c *core.Ctx, name string, body func(), bound int, rp replay) {
	e := &sched.Explorer{Bound: bound, MaxSteps: 4000, Body: body, VerifyEvery: 499, Stop: c.OutOfBudget}
	logs := map[string]bool{}
	e.Check = func(r sched.Result) bool {
		if r.Failure != "" {
			rp.Choices = r.Choices
			c.Violation(sigOf(r.Failure), rp, "%s\n  program: %s\n  schedule: %v\n  log: %s", r.Failure, name, r.Choices, strings.Join(r.Log, " | "))
			return false
		}
		logs[strings.Join(r.Log, "|")] = true
		return true
	}
	e.Run()
	c.Count("evaluations", e.Execs)
	c.Count("scheduling_points", e.Points)
	c.Count("distinct_nontrivial", int64(len(logs)))
	c.Count("programs", 1)
	if len(logs) > 1 {
		c.Count("programs_with_several_outcomes", 1)
	}
}

func main() {
	c := core.New("C18", "exploration")
	if c.Replay != "" {
		var rp replay
		if err := c.LoadReplay(&rp); err != nil {
			fmt.Println(err)
			c.Finish()
		}
		var body func()
		if rp.Peer != nil {
			body = peerBody(*rp.Peer)
			fmt.Println(rp.Peer)
		} else {
			body = baseBody(*rp.Base)
			fmt.Println(rp.Base)
		}
		r := sched.Run(rp.Choices, 4000, true, body)
		for _, l := range r.Trace {
			fmt.Println("  ", l)
		}
		fmt.Println("log:", strings.Join(r.Log, " | "))
		if r.Failure != "" {
			c.Violation(sigOf(r.Failure), rp, "%s", r.Failure)
		}
		c.Finish()
	}
	quick := c.Quick()

	// peer leecher scripts
	maxLen, bound := 6, 2
	if quick {
		maxLen, bound = 5, 1
	}
	var scripts [][]pOp
	var gen func(cur []pOp)
	gen = func(cur []pOp) {
		if len(cur) > 0 {
			scripts = append(scripts, append([]pOp{}, cur...))
		}
		if len(cur) == maxLen {
			return
		}
		for o := pOp(0); o < nPOps; o++ {
			if o == pTick3 && (len(cur) == 0 || cur[len(cur)-1] == pTick3) {
				continue
			}
			gen(append(cur, o))
		}
	}
	gen(nil)
	var pprogs []peerProgram
	for _, par := range []int{1, 2} {
		for _, s := range scripts {
			pprogs = append(pprogs, peerProgram{par, s})
		}
	}
	c.Set("peer_leecher_programs_total", len(pprogs))
	c.Parallel(len(pprogs), func(i int) {
		p := pprogs[i]
		explore(c, p.String(), peerBody(p), bound, replay{Peer: &p})
		c.Count("peer_leecher_programs", 1)
	})

	// base leecher programs
	alpha := []bOp{{bReg, "a"}, {bReg, "b"}, {bUnreg, "a"}, {bUnreg, "b"}, {K: bTerm}, {K: bSleep}, {K: bShouldEndOn}}
	var t1, t2 [][]bOp
	for _, o := range alpha {
		t1 = append(t1, []bOp{o})
		for _, o2 := range alpha {
			t2 = append(t2, []bOp{o, o2})
		}
	}
	all := append(append([][]bOp{}, t1...), t2...)
	inits := [][]bOp{nil, {{bReg, "a"}, {K: bSleep}}, {{bReg, "a"}, {bReg, "b"}, {K: bSleep}}}
	var bprogs []baseProgram
	for _, in := range inits {
		for i, a := range all {
			for j, b := range all {
				if j < i {
					continue
				}
				if quick && len(a)+len(b) > 3 {
					continue
				}
				bprogs = append(bprogs, baseProgram{Init: in, Threads: [][]bOp{a, b}}, baseProgram{Init: in, Threads: [][]bOp{a, b}, StickyPeer: true})
			}
		}
	}
	c.Set("base_leecher_programs_total", len(bprogs))
	c.Parallel(len(bprogs), func(i int) {
		p := bprogs[i]
		explore(c, p.String(), baseBody(p), 2, replay{Base: &p})
		c.Count("base_leecher_programs", 1)
	})
	if c.Lead() {
		c.Set("rule", "evaluations = complete executions (one schedule of one program on virtual time); distinct_nontrivial = distinct observation logs per program (callback sequences)")
		c.Set("deviation_bound_peer_leecher", bound)
		c.Set("deviation_bound_base_leecher", 2)
		c.Set("peer_leecher_script_length", maxLen)
		c.Sample(map[string]interface{}{"program": pprogs[len(pprogs)/3].String()})
		c.Sample(map[string]interface{}{"program": bprogs[len(bprogs)/2].String()})
		c.Assume("chunk ids are unique; 'processed' chunks are received chunks the IsProcessed callback answers true for")
		c.Assume("'no request while suspended' is judged by the last Suspend() answer the leecher obtained")
		c.Assume("session model: candidates are the currently registered peers, the pick is an explorer choice; a concurrent RegisterPeer of the same peer lifts the unregistered status")
		c.Set("exhaustive", true)
	}
	c.Finish()
}
