// C19: parent selection is well-formed.
// Exhaustive: every (existing, options, strategies) over a 5-hash pool with scripted "rank k"
// strategies (every possible choice, independent of the internal shuffle) and MetricStrategy over
// all metric assignments from a boundary alphabet.
package main

import (
	"bytes"
	"fmt"
	"math"
	"sort"

	"github.com/Fantom-foundation/lachesis-base/emitter/ancestor"
	"github.com/Fantom-foundation/lachesis-base/hash"
	"verif/core"
)

var pool [5]hash.Event

type rankStrategy struct {
	k     int
	calls *[]call
}
type call struct {
	existing hash.Events
	options  hash.Events
	picked   hash.Event
}

func (s rankStrategy) Choose(existing hash.Events, options hash.Events) int {
	sorted := append(hash.Events{}, options...)
	sort.Slice(sorted, func(i, j int) bool { return bytes.Compare(sorted[i][:], sorted[j][:]) < 0 })
	want := sorted[s.k%len(sorted)]
	for i, o := range options {
		if o == want {
			*s.calls = append(*s.calls, call{existing.Copy(), options.Copy(), want})
			return i
		}
	}
	panic("unreachable")
}

func name(h hash.Event) string {
	for i, p := range pool {
		if p == h {
			return string(rune('A' + i))
		}
	}
	return "?"
}
func names(hh hash.Events) string {
	s := ""
	for _, h := range hh {
		s += name(h)
	}
	return s
}

func main() {
	c := core.New("C19", "exploration")
	c.Set("rule", "existing = duplicate-free lists (len 0-2), options = all lists (len 0-4, duplicates and overlaps) over a 5-hash pool; 0-3 scripted strategies with every rank vector; MetricStrategy with every metric assignment from the alphabet. non-trivial = cases where options overlap existing or contain duplicates and at least one strategy runs")
	for i := range pool {
		pool[i][0] = byte(0x10 * (5 - i)) // byte order differs from pool order
		pool[i][31] = byte(i)
	}
	var existings, optionss []hash.Events
	existings = append(existings, hash.Events{})
	for a := 0; a < 5; a++ {
		existings = append(existings, hash.Events{pool[a]})
		for b := 0; b < 5; b++ {
			if a != b {
				existings = append(existings, hash.Events{pool[a], pool[b]})
			}
		}
	}
	var rec func(cur hash.Events)
	rec = func(cur hash.Events) {
		optionss = append(optionss, cur.Copy())
		if len(cur) == 4 {
			return
		}
		for a := 0; a < 5; a++ {
			rec(append(cur, pool[a]))
		}
	}
	rec(hash.Events{})
	var ranks [][]int
	var rr func(cur []int)
	rr = func(cur []int) {
		ranks = append(ranks, append([]int{}, cur...))
		if len(cur) == 3 {
			return
		}
		for k := 0; k < 5; k++ {
			rr(append(cur, k))
		}
	}
	rr(nil)
	metricAlpha := []uint64{0, 1, 2, math.MaxUint64}
	if c.Quick() {
		metricAlpha = []uint64{0, 1, math.MaxUint64}
	}
	nMetric := 1
	for i := 0; i < 5; i++ {
		nMetric *= len(metricAlpha)
	}

	check := func(existing, options hash.Events, res hash.Events, nStrat int, rep func() interface{}) bool {
		bad := func(sig, f string, a ...interface{}) bool {
			c.Violation(sig, rep(), "existing=%s options=%s strategies=%d result=%s: %s", names(existing), names(options), nStrat, names(res), fmt.Sprintf(f, a...))
			return false
		}
		if len(res) < len(existing) {
			return bad("prefix", "result shorter than existing")
		}
		for i := range existing {
			if res[i] != existing[i] {
				return bad("prefix", "existing parents are not the prefix")
			}
		}
		avail := options.Set()
		for _, e := range existing {
			avail.Erase(e)
		}
		wantAdded := nStrat
		if len(avail) < wantAdded {
			wantAdded = len(avail)
		}
		added := res[len(existing):]
		if len(added) != wantAdded {
			return bad("count", "added %d parents, want min(strategies, remaining options)=%d", len(added), wantAdded)
		}
		seen := existing.Set()
		for _, a := range added {
			if seen.Contains(a) {
				return bad("repeat", "parent %s repeated", name(a))
			}
			if !options.Set().Contains(a) {
				return bad("not-offered", "parent %s was not an option", name(a))
			}
			seen.Add(a)
		}
		return true
	}

	c.Parallel(len(existings), func(ei int) {
		existing := existings[ei]
		var evals, nontriv int64
		for _, options := range optionss {
			overlap := len(options.Set()) != len(options)
			for _, e := range existing {
				overlap = overlap || options.Set().Contains(e)
			}
			// scripted strategies
			for _, rk := range ranks {
				var calls []call
				strategies := make([]ancestor.SearchStrategy, len(rk))
				for i, k := range rk {
					strategies[i] = rankStrategy{k, &calls}
				}
				rep := func() interface{} {
					return map[string]interface{}{"existing": names(existing), "options": names(options), "ranks": rk}
				}
				var res hash.Events
				if pv := core.Catch(func() { res = ancestor.ChooseParents(existing.Copy(), options.Copy(), strategies) }); pv != nil {
					c.Violation("panic", rep(), "ChooseParents panicked: %v (existing=%s options=%s ranks=%v)", pv, names(existing), names(options), rk)
					continue
				}
				evals++
				if overlap && len(rk) > 0 {
					nontriv++
				}
				if !check(existing, options, res, len(rk), rep) {
					continue
				}
				// what each strategy saw
				avail := options.Set()
				for _, e := range existing {
					avail.Erase(e)
				}
				cur := existing.Copy()
				for ci, cl := range calls {
					if len(cl.options.Set()) != len(cl.options) || len(cl.options) != len(avail) {
						c.Violation("offered-set", rep(), "strategy %d was offered %s, still available are %d options (existing=%s options=%s)", ci, names(cl.options), len(avail), names(existing), names(options))
						break
					}
					okAll := true
					for _, o := range cl.options {
						okAll = okAll && avail.Contains(o)
					}
					if !okAll || names(cl.existing) != names(cur) {
						c.Violation("offered-set", rep(), "strategy %d saw existing=%s options=%s; expected existing=%s", ci, names(cl.existing), names(cl.options), names(cur))
						break
					}
					if res[len(existing)+ci] != cl.picked {
						c.Violation("pick-ignored", rep(), "strategy %d picked %s but %s was added", ci, name(cl.picked), name(res[len(existing)+ci]))
						break
					}
					avail.Erase(cl.picked)
					cur = append(cur, cl.picked)
				}
			}
			// metric strategy: 1 and 2 strategies, all metric assignments
			for mi := 0; mi < nMetric; mi++ {
				var metric [5]uint64
				x := mi
				for i := 0; i < 5; i++ {
					metric[i] = metricAlpha[x%len(metricAlpha)]
					x /= len(metricAlpha)
				}
				fn := func(h hash.Event) ancestor.Metric {
					for i, p := range pool {
						if p == h {
							return ancestor.Metric(metric[i])
						}
					}
					panic("metric of unknown hash")
				}
				for ns := 1; ns <= 2; ns++ {
					strategies := []ancestor.SearchStrategy{}
					for i := 0; i < ns; i++ {
						strategies = append(strategies, ancestor.NewMetricStrategy(fn))
					}
					rep := func() interface{} {
						return map[string]interface{}{"existing": names(existing), "options": names(options), "metric": metric, "strategies": ns}
					}
					res := ancestor.ChooseParents(existing.Copy(), options.Copy(), strategies)
					evals++
					if !check(existing, options, res, ns, rep) {
						continue
					}
					avail := options.Set()
					for _, e := range existing {
						avail.Erase(e)
					}
					for _, a := range res[len(existing):] {
						var max uint64
						for o := range avail {
							if m := uint64(fn(o)); m > max {
								max = m
							}
						}
						if uint64(fn(a)) != max {
							c.Violation("metric-not-max", rep(), "metric strategy picked %s (metric %d) while an option with metric %d was available; existing=%s options=%s metric=%v", name(a), uint64(fn(a)), max, names(existing), names(options), metric)
							break
						}
						avail.Erase(a)
					}
				}
			}
		}
		c.Count("evaluations", evals)
		c.Count("distinct_nontrivial", nontriv)
	})
	c.Set("exhaustive", !c.Capped())
	c.Sample(map[string]interface{}{"existing": "AB", "options": "BBCA", "ranks": []int{4, 0, 2}})
	c.Sample(map[string]interface{}{"existing": "", "options": "EDCB", "metric": []uint64{0, 1, math.MaxUint64, 1, 0}, "strategies": 2})
	c.Finish()
}
