// xdev: development aid (not registered in MANIFEST.json): runs the consensus explorer over exactly the families
// given as JSON in $VERIF_DEV_FAMILIES ({"Rounds":[...],"Sleepers":[...],"All":[...]}), judging like C01+C10.
// Used to design families against archived seeded changes (./mut2.sh XDEV <patch>).
package main

import (
	"encoding/json"
	"fmt"
	"os"

	"verif/cons"
	"verif/core"
)

func main() {
	c := core.New("C01", "model_checking")
	var fam cons.ConsFamilies
	if err := json.Unmarshal([]byte(os.Getenv("VERIF_DEV_FAMILIES")), &fam); err != nil {
		fmt.Println("bad VERIF_DEV_FAMILIES:", err)
		os.Exit(2)
	}
	fam.NoCorpus = true
	cons.ExploreConsensus(c, fam, cons.Report{"accept": true, "order": true, "ref": true, "content": true, "cheaters": true})
	c.Finish()
}
