#!/bin/bash
set -e
cd /verif
export GOFLAGS=-mod=mod GOPROXY=off GOSUMDB=off GOTOOLCHAIN=local
go build -o .work/bin/instrument ./tools/instrument
.work/bin/instrument -repo /repo -out /verif/.work/c28 -pkgs kvdb/flushable,kvdb/memorydb,kvdb/synced,utils/wlru,utils/datasemaphore,gossip/dagordering -maprange 'kvdb/flushable/synced_pool.go=p.wrappers,p.queuedDrops,dbs'
# second binary with the race detector (same sources, same overlay)
go build -race -tags verif -overlay /verif/.work/c28/overlay.json -o ".work/bin/${VERIF_BIN:-c28}-race" ./harness/c28/
