// C28: thread-safe components are race free and linearizable.
//
// Components: flushable.Flushable (over memorydb), flushable.SyncedPool (over a memorydb producer),
// wlru.Cache, datasemaphore.DataSemaphore, dagordering.EventsBuffer — all rewritten onto the scheduler
// shims (overlay generated from /repo on every run).  For each component every program
// "sequential setup; 2 threads x 1-2 calls" (and 3 threads x 1 call) over a colliding call alphabet is
// explored under every schedule within the deviation bound.
//
// (1) Linearizability: the call/return history of every complete execution must be equivalent to some
// sequential order that respects the order of non-overlapping calls; the sequential reference is the
// real component itself, run sequentially on a fresh instance in the candidate order (brute force
// over the <= 6 calls).  Calls documented as non-atomic (iteration) are executed but not compared.
// (2) Race freedom: the same programs run in a second binary built with -race, under the same
// controlled scheduler whose hand-offs use raw pipe system calls (invisible to the detector) and whose
// shims perform the real synchronisation operation once granted, so the detector sees exactly the
// program's own happens-before edges on every explored schedule.  Any report whose two accesses are in
// repository code is a violation, attributed to the program and schedule that produced it.
package main

import (
	"encoding/json"
	"flag"
	"fmt"
	"os"
	"os/exec"
	"sort"
	"strings"

	"github.com/Fantom-foundation/lachesis-base/gossip/dagordering"
	"github.com/Fantom-foundation/lachesis-base/hash"
	"github.com/Fantom-foundation/lachesis-base/inter/dag"
	"github.com/Fantom-foundation/lachesis-base/inter/dag/tdag"
	"github.com/Fantom-foundation/lachesis-base/inter/idx"
	"github.com/Fantom-foundation/lachesis-base/kvdb"
	"github.com/Fantom-foundation/lachesis-base/kvdb/flushable"
	"github.com/Fantom-foundation/lachesis-base/kvdb/memorydb"
	"github.com/Fantom-foundation/lachesis-base/utils/datasemaphore"
	"github.com/Fantom-foundation/lachesis-base/utils/wlru"
	"verif/core"
	"verif/mc/sched"
)

// ---- components --------------------------------------------------------------------------------

type inst interface {
	// Do executes call number o and returns its observable result ("" for calls that are not compared)
	Do(o int) string
}

type comp struct {
	Name  string
	Ops   []string
	New   func() inst
	Quick []int // indices of the reduced alphabet
	Setup [][]int
}

func errs(err error) string {
	if err != nil {
		return "err:" + err.Error()
	}
	return "ok"
}

// flushable ----------------------------------------------------------------------------------------

type flInst struct{ f *flushable.Flushable }

//go:norace
func (x *flInst) Do(o int) string {
	f := x.f
	switch o {
	case 0:
		return errs(f.Put([]byte("a"), []byte("x")))
	case 1:
		return errs(f.Put([]byte("a"), []byte("y")))
	case 2:
		return errs(f.Delete([]byte("a")))
	case 3:
		v, err := f.Get([]byte("a"))
		return fmt.Sprintf("%q %v", v, err)
	case 4:
		ok, err := f.Has([]byte("a"))
		return fmt.Sprintf("%v %v", ok, err)
	case 5:
		return errs(f.Put([]byte("ab"), []byte("x")))
	case 6:
		return errs(f.Flush())
	case 7:
		f.DropNotFlushed()
		return "ok"
	case 8:
		return fmt.Sprint(f.NotFlushedPairs())
	case 9:
		return fmt.Sprint(f.NotFlushedSizeEst())
	case 10:
		s, err := f.GetSnapshot()
		if err != nil {
			return errs(err)
		}
		v, err := s.Get([]byte("a"))
		s.Release()
		return fmt.Sprintf("%q %v", v, err)
	case 11: // iteration: not atomic by contract, executed for race detection and sanity only
		it := f.NewIterator(nil, nil)
		prev := ""
		for it.Next() {
			if k := string(it.Key()); k <= prev && prev != "" {
				sched.Fail("iterator-not-ascending: flushable iterator returned %q after %q", k, prev)
			} else {
				prev = k
			}
		}
		it.Release()
		return ""
	case 12:
		b := f.NewBatch()
		b.Put([]byte("a"), []byte("z"))
		b.Delete([]byte("ab"))
		return errs(b.Write())
	}
	panic("op")
}

var flOps = []string{"Put(a,x)", "Put(a,y)", "Delete(a)", "Get(a)", "Has(a)", "Put(ab,x)", "Flush", "DropNotFlushed", "NotFlushedPairs", "NotFlushedSizeEst", "GetSnapshot+Get(a)", "iterate", "batch{Put(a,z),Delete(ab)}.Write"}

// synced pool --------------------------------------------------------------------------------------

type poolInst struct {
	p        *flushable.SyncedPool
	a, b, ua kvdb.Store // handles opened when the instance is built, so that every call below is ONE API call
}

//go:norace
func (x *poolInst) Do(o int) string {
	p := x.p
	get := func(s kvdb.Store, k string) string {
		v, err := s.Get([]byte(k))
		return fmt.Sprintf("%q %v", v, err)
	}
	switch o {
	case 0:
		return errs(x.a.Put([]byte("k"), []byte("x")))
	case 1:
		return get(x.a, "k")
	case 2:
		return get(x.ua, "k")
	case 3:
		return errs(p.Flush([]byte("id1")))
	case 4:
		return fmt.Sprint(p.NotFlushedSizeEst())
	case 5:
		n := p.Names()
		sort.Strings(n)
		return fmt.Sprint(n)
	case 6:
		return errs(x.b.Put([]byte("k"), []byte("y")))
	case 7:
		return errs(x.a.Delete([]byte("k")))
	case 8: // the flush mark as seen through the read-only view: never the dirty mark in a sequential history
		return get(x.ua, "flushid")
	case 9:
		_, err := p.OpenDB("c")
		return errs(err)
	case 10:
		_, err := p.GetUnderlying("b")
		return errs(err)
	}
	panic("op")
}

var poolOps = []string{"a.Put(k,x)", "a.Get(k)", "underlying(a).Get(k)", "Flush(id1)", "NotFlushedSizeEst", "Names", "b.Put(k,y)", "a.Delete(k)", "underlying(a).Get(flush mark)", "OpenDB(c)", "GetUnderlying(b)"}

// wlru -------------------------------------------------------------------------------------------------

type lruInst struct {
	c       *wlru.Cache
	evicted map[string][]string // per calling thread (callbacks run on the caller's thread)
}

//go:norace
func (x *lruInst) Do(o int) string {
	c := x.c
	me := sched.CurName()
	x.evicted[me] = nil
	r := ""
	switch o {
	case 0:
		r = fmt.Sprint(c.Add("a", "1", 1))
	case 1:
		r = fmt.Sprint(c.Add("b", "2", 2))
	case 2:
		r = fmt.Sprint(c.Add("c", "3", 3))
	case 3:
		v, ok := c.Get("a")
		r = fmt.Sprint(v, ok)
	case 4:
		v, ok := c.Peek("a")
		r = fmt.Sprint(v, ok)
	case 5:
		r = fmt.Sprint(c.Contains("a"))
	case 6:
		r = fmt.Sprint(c.Remove("a"))
	case 7:
		k, v, ok := c.RemoveOldest()
		r = fmt.Sprint(k, v, ok)
	case 8:
		r = fmt.Sprint(c.Keys())
	case 9:
		r = fmt.Sprint(c.Len())
	case 10:
		c.Purge()
		r = "ok"
	case 11:
		ok, ev := c.ContainsOrAdd("a", "9", 1)
		r = fmt.Sprint(ok, ev)
	case 12:
		p, ok, ev := c.PeekOrAdd("b", "8", 1)
		r = fmt.Sprint(p, ok, ev)
	case 13:
		r = fmt.Sprint(c.Resize(2, 1))
	case 14:
		w, n := c.Total()
		r = fmt.Sprint(w, n)
	case 15:
		k, v, ok := c.GetOldest()
		r = fmt.Sprint(k, v, ok)
	case 16:
		r = fmt.Sprint(c.Weight())
	default:
		panic("op")
	}
	ev := x.evicted[me]
	sort.Strings(ev)
	return r + " evicted" + fmt.Sprint(ev)
}

var lruOps = []string{"Add(a,w1)", "Add(b,w2)", "Add(c,w3)", "Get(a)", "Peek(a)", "Contains(a)", "Remove(a)", "RemoveOldest", "Keys", "Len", "Purge", "ContainsOrAdd(a)", "PeekOrAdd(b)", "Resize(2,1)", "Total", "GetOldest", "Weight"}

// semaphore ------------------------------------------------------------------------------------------

type semInst struct {
	s     *datasemaphore.DataSemaphore
	warns map[string]int // per calling thread
}

//go:norace
func (x *semInst) Do(o int) string {
	s := x.s
	me := sched.CurName()
	w0 := x.warns[me]
	m1, m2 := dag.Metric{Num: 1, Size: 5}, dag.Metric{Num: 2, Size: 20}
	r := ""
	switch o {
	case 0:
		r = fmt.Sprint(s.TryAcquire(m1))
	case 1:
		r = fmt.Sprint(s.TryAcquire(m2))
	case 2:
		s.Release(m1)
	case 3:
		s.Release(m2)
	case 4:
		r = fmt.Sprint(s.Processing())
	case 5:
		r = fmt.Sprint(s.Available())
	case 6:
		s.Terminate()
	case 7:
		r = fmt.Sprint(s.Acquire(m1, 0))
	default:
		panic("op")
	}
	return fmt.Sprintf("%s warned=%d", r, x.warns[me]-w0)
}

var semOps = []string{"TryAcquire(1,5)", "TryAcquire(2,20)", "Release(1,5)", "Release(2,20)", "Processing", "Available", "Terminate", "Acquire((1,5),0)"}

// events buffer ----------------------------------------------------------------------------------------

type bufInst struct {
	b         *dagordering.EventsBuffer
	evs       []*tdag.TestEvent
	connected map[hash.Event]bool
	log       map[string][]string // callbacks per calling thread
}

func mkBufEvents() []*tdag.TestEvent {
	evs := make([]*tdag.TestEvent, 3)
	for i := range evs {
		e := &tdag.TestEvent{}
		e.SetEpoch(1)
		e.SetCreator(1)
		e.SetSeq(idx.Event(i + 1))
		e.SetLamport(idx.Lamport(i + 1))
		if i > 0 {
			e.SetParents(hash.Events{evs[i-1].ID()})
		}
		var tail [24]byte
		tail[0] = byte(i + 1)
		e.SetID(tail)
		e.Name = fmt.Sprintf("e%d", i)
		evs[i] = e
	}
	return evs
}

//go:norace
func (x *bufInst) Do(o int) string {
	me := sched.CurName()
	x.log[me] = nil
	r := ""
	switch o {
	case 0, 1, 2:
		r = fmt.Sprint(x.b.PushEvent(x.evs[o], "peer"))
	case 3:
		x.b.Clear()
	case 4:
		r = fmt.Sprint(x.b.Total())
	case 5:
		r = fmt.Sprint(x.b.IsBuffered(x.evs[2].ID()))
	default:
		panic("op")
	}
	return r + " " + strings.Join(x.log[me], ",")
}

var bufOps = []string{"PushEvent(e0)", "PushEvent(e1)", "PushEvent(e2)", "Clear", "Total", "IsBuffered(e2)"}

var nsCounter int

//go:norace
func components() []comp {
	return []comp{
		{Name: "flushable", Ops: flOps, Quick: []int{0, 2, 3, 5, 6, 7, 8, 9, 10, 11}, Setup: [][]int{nil, {0, 6, 1}},
			New: func() inst { return &flInst{flushable.Wrap(memorydb.New())} }},
		{Name: "syncedpool", Ops: poolOps, Quick: []int{0, 1, 2, 3, 4, 6, 8, 9}, Setup: [][]int{nil, {0, 3}},
			New: func() inst {
				nsCounter++ // memorydb keeps a global registry of namespaces: every instance gets its own
				x := &poolInst{p: flushable.NewSyncedPool(memorydb.NewProducer(fmt.Sprintf("c28-%d", nsCounter)), []byte("flushid"))}
				x.a, _ = x.p.OpenDB("a")
				x.b, _ = x.p.OpenDB("b")
				x.ua, _ = x.p.GetUnderlying("a")
				return x
			}},
		{Name: "wlru", Ops: lruOps, Quick: []int{0, 1, 2, 3, 6, 7, 8, 11, 13, 14}, Setup: [][]int{nil, {0, 1}},
			New: func() inst {
				x := &lruInst{evicted: map[string][]string{}}
				x.c, _ = wlru.NewWithEvict(4, 2, func(k, v interface{}) {
					x.evicted[sched.CurName()] = append(x.evicted[sched.CurName()], fmt.Sprint(k, "=", v))
				})
				return x
			}},
		{Name: "datasemaphore", Ops: semOps, Quick: []int{0, 1, 2, 4, 5, 6, 7}, Setup: [][]int{nil, {0}},
			New: func() inst {
				x := &semInst{warns: map[string]int{}}
				x.s = datasemaphore.New(dag.Metric{Num: 2, Size: 20}, func(a, b, c dag.Metric) { x.warns[sched.CurName()]++ })
				return x
			}},
		{Name: "eventsbuffer", Ops: bufOps, Quick: []int{0, 1, 2, 3, 4, 5}, Setup: [][]int{nil, {1}},
			New: func() inst {
				x := &bufInst{evs: mkBufEvents(), connected: map[hash.Event]bool{}, log: map[string][]string{}}
				x.b = dagordering.New(dag.Metric{Num: 10, Size: 1 << 30}, dagordering.Callback{
					Process: func(e dag.Event) error {
						x.connected[e.ID()] = true
						x.log[sched.CurName()] = append(x.log[sched.CurName()], "P"+e.ID().String()[:6])
						return nil
					},
					Released: func(e dag.Event, peer string, err error) {
						x.log[sched.CurName()] = append(x.log[sched.CurName()], fmt.Sprintf("R%s:%v", e.ID().String()[:6], err != nil))
					},
					Get: func(id hash.Event) dag.Event {
						if x.connected[id] {
							for _, e := range x.evs {
								if e.ID() == id {
									return e
								}
							}
						}
						return nil
					},
					Exists: func(id hash.Event) bool { return x.connected[id] },
					Check:  func(e dag.Event, parents dag.Events) error { return nil },
				})
				return x
			}},
	}
}

// ---- programs and histories ----------------------------------------------------------------------

type program struct {
	Comp    int
	Setup   []int
	Threads [][]int
}

func (p program) describe(cs []comp) string {
	c := cs[p.Comp]
	f := func(ops []int) string {
		var s []string
		for _, o := range ops {
			s = append(s, c.Ops[o])
		}
		return strings.Join(s, "; ")
	}
	parts := []string{c.Name + " setup[" + f(p.Setup) + "]"}
	for i, t := range p.Threads {
		parts = append(parts, fmt.Sprintf("T%d[%s]", i+1, f(t)))
	}
	return strings.Join(parts, " ")
}

type rec struct {
	Thread, Op, Call, Ret int
	Out                   string
}

var lastHist []rec

//go:norace
func body(cs []comp, p program) func() {
	return func() {
		in := cs[p.Comp].New()
		clock := 0
		var hist []rec
		for _, o := range p.Setup {
			clock++
			c := clock
			out := in.Do(o)
			clock++
			hist = append(hist, rec{0, o, c, clock, out})
		}
		var hs []sched.Handle
		for ti, ops := range p.Threads {
			ti, ops := ti, ops
			hs = append(hs, sched.Spawn(fmt.Sprintf("T%d", ti+1), func() {
				for _, o := range ops {
					clock++
					c := clock
					out := in.Do(o)
					clock++
					hist = append(hist, rec{ti + 1, o, c, clock, out})
				}
			}))
		}
		sched.WaitAll(hs...)
		lastHist = hist
		var l []string
		for _, r := range hist {
			l = append(l, fmt.Sprintf("T%d:%s=%s", r.Thread, cs[p.Comp].Ops[r.Op], r.Out))
		}
		sched.Logf("%s", strings.Join(l, " | "))
	}
}

// linearizable: is there an order of hist, respecting real time, whose sequential execution on a
// fresh instance of the real component yields the same outputs?
//
//go:norace
func linearizable(c comp, hist []rec) (bool, int) {
	n := len(hist)
	order := make([]int, 0, n)
	used := make([]bool, n)
	replays := 0
	var dfs func() bool
	dfs = func() bool {
		if len(order) == n {
			return true
		}
		minRet := int(^uint(0) >> 1)
		for i, r := range hist {
			if !used[i] && r.Ret < minRet {
				minRet = r.Ret
			}
		}
		for i, r := range hist {
			if used[i] || r.Call > minRet {
				continue
			}
			// replay order+i sequentially
			in := c.New()
			ok := true
			replays++
			for _, j := range order {
				if out := in.Do(hist[j].Op); out != hist[j].Out {
					ok = false // cannot happen: the prefix was validated before
					break
				}
			}
			if ok && in.Do(r.Op) == r.Out {
				used[i] = true
				order = append(order, i)
				if dfs() {
					return true
				}
				order = order[:len(order)-1]
				used[i] = false
			}
		}
		return false
	}
	return dfs(), replays
}

// classify names a non-linearizable history; the two known findings have their own, specific signatures.
//
//go:norace
func classify(comp comp, hist []rec) string {
	sig := "not-linearizable/" + comp.Name
	without := func(ops ...int) []rec {
		var rest []rec
		for _, h := range hist {
			skip := false
			for _, o := range ops {
				skip = skip || h.Op == o
			}
			if !skip {
				rest = append(rest, h)
			}
		}
		return rest
	}
	if comp.Name == "eventsbuffer" {
		// is the lock-free reader the only thing that cannot be placed?
		if rest := without(4, 5); len(rest) < len(hist) {
			if ok, _ := linearizable(comp, rest); ok {
				sig = "not-linearizable/eventsbuffer/lock-free-Total-or-IsBuffered-observes-a-push-in-progress"
			}
		}
	}
	if comp.Name == "syncedpool" {
		// is the size estimate (a sum over the databases, taken without their locks) the only call that cannot be placed?
		if rest := without(4); len(rest) < len(hist) {
			if ok, _ := linearizable(comp, rest); ok {
				sig = "not-linearizable/syncedpool/NotFlushedSizeEst-sums-the-databases-non-atomically"
			}
		}
	}
	return sig
}

func gen(cs []comp, quick bool) []program {
	var progs []program
	for ci, c := range cs {
		alpha := make([]int, len(c.Ops))
		for i := range alpha {
			alpha[i] = i
		}
		if quick {
			alpha = c.Quick
		}
		var one, two [][]int
		for _, a := range alpha {
			one = append(one, []int{a})
			for _, b := range alpha {
				two = append(two, []int{a, b})
			}
		}
		for _, su := range c.Setup {
			// 2 threads: 1x1, 2x1, 2x2 (unordered pairs)
			for i, a := range one {
				for j, b := range one {
					if j >= i {
						progs = append(progs, program{ci, su, [][]int{a, b}})
					}
				}
				for _, b := range two {
					progs = append(progs, program{ci, su, [][]int{a, b}})
				}
			}
			if !quick {
				for i, a := range two {
					for j, b := range two {
						if j >= i {
							progs = append(progs, program{ci, su, [][]int{a, b}})
						}
					}
				}
			}
			// 3 threads x 1 call
			for i, a := range one {
				for j, b := range one {
					for k, d := range one {
						if j >= i && k >= j {
							progs = append(progs, program{ci, su, [][]int{a, b, d}})
						}
					}
				}
			}
		}
	}
	return progs
}

func sigOf(f string) string {
	if i := strings.Index(f, ":"); i > 0 && i < 60 {
		return f[:i]
	}
	return "failure"
}

type replay struct {
	Program  program
	Describe string
	Choices  []int
}

type raceRes struct {
	Prog    int      `json:"prog"`
	Execs   int64    `json:"execs"`
	Reports []string `json:"reports"`
	Choices [][]int  `json:"choices"`
	Fail    string   `json:"fail"`
}

// raceSig extracts "funcA <-> funcB" (top frames of the two accesses) and whether both are repository code.
func raceSig(report string) (sig string, inRepo bool) {
	lines := strings.Split(report, "\n")
	var tops []string
	for i, l := range lines {
		t := strings.TrimSpace(l)
		if (strings.HasPrefix(t, "Write at") || strings.HasPrefix(t, "Read at") || strings.HasPrefix(t, "Previous write at") || strings.HasPrefix(t, "Previous read at") ||
			strings.HasPrefix(t, "Atomic") || strings.HasPrefix(t, "Previous atomic")) && i+1 < len(lines) {
			// first frame that is not runtime / sync internals / a shim standing in for them
			top := "artefact"
			for j := i + 1; j < len(lines); j += 2 {
				fn := strings.TrimSpace(lines[j])
				if fn == "" {
					break
				}
				if strings.HasPrefix(fn, "runtime.") || strings.HasPrefix(fn, "sync.") || strings.HasPrefix(fn, "sync/atomic.") || strings.HasPrefix(fn, "internal/") ||
					strings.HasPrefix(fn, "verif/mc/vatomic.") || strings.HasPrefix(fn, "verif/mc/vsync.") || strings.HasPrefix(fn, "verif/mc/vchan.") || strings.HasPrefix(fn, "verif/mc/vtime.") {
					continue
				}
				if k := strings.LastIndex(fn, "("); k > 0 && strings.HasSuffix(fn, ")") && !strings.ContainsAny(fn[k:], "*.") {
					fn = fn[:k]
				}
				top = fn
				break
			}
			tops = append(tops, top)
		}
	}
	if len(tops) < 2 {
		return "unparsed", true
	}
	tops = tops[:2]
	sort.Strings(tops)
	inRepo = true
	for _, t := range tops {
		// scheduler / harness bookkeeping (closures are not covered by go:norace) is not program code
		if t == "artefact" || strings.HasPrefix(t, "verif/") || strings.HasPrefix(t, "main.") {
			inRepo = false
		}
	}
	short := func(s string) string {
		if i := strings.LastIndex(s, "/"); i >= 0 {
			s = s[i+1:]
		}
		return s
	}
	return "race/" + short(tops[0]) + "<->" + short(tops[1]), inRepo
}

// raceChild runs programs [from,to) in the -race binary and prints one JSON line per program.
//
//go:norace
func raceChild(cs []comp, progs []program, from, to, bound int, logPath string) {
	size := func() int64 {
		fi, err := os.Stat(logPath)
		if err != nil {
			return 0
		}
		return fi.Size()
	}
	enc := json.NewEncoder(os.Stdout)
	for i := from; i < to && i < len(progs); i++ {
		p := progs[i]
		res := raceRes{Prog: i}
		e := &sched.Explorer{Bound: bound, MaxSteps: 20000, Body: body(cs, p)}
		before := size()
		e.Check = func(r sched.Result) bool {
			if r.Failure != "" && res.Fail == "" {
				res.Fail = r.Failure
			}
			if now := size(); now > before {
				b, _ := os.ReadFile(logPath)
				txt := string(b[before:])
				before = now
				for _, rep := range strings.Split(txt, "==================") {
					if strings.Contains(rep, "DATA RACE") {
						res.Reports = append(res.Reports, strings.TrimSpace(rep))
						res.Choices = append(res.Choices, r.Choices)
					}
				}
			}
			return true
		}
		e.Run()
		res.Execs = e.Execs
		enc.Encode(res)
	}
}

func main() {
	child := flag.String("race-child", "", "from:to:bound (internal)")
	logp := flag.String("race-log", "", "race log path (internal)")
	cs := components()
	if os.Getenv("VERIF_RACE_CHILD") != "" {
		// flags are parsed by hand: core.New would re-exec workers
		flag.Parse()
		var from, to, bound int
		fmt.Sscanf(*child, "%d:%d:%d", &from, &to, &bound)
		quick := os.Getenv("VERIF_TIER") != "thorough"
		raceChild(cs, gen(cs, quick), from, to, bound, fmt.Sprintf("%s.%d", *logp, os.Getpid()))
		os.Remove(fmt.Sprintf("%s.%d", *logp, os.Getpid()))
		return
	}
	c := core.New("C28", "exploration")
	quick := c.Quick()
	progs := gen(cs, quick)
	if c.Replay != "" {
		var rp replay
		if err := c.LoadReplay(&rp); err != nil {
			fmt.Println(err)
			c.Finish()
		}
		fmt.Println(rp.Describe)
		r := sched.Run(rp.Choices, 20000, true, body(cs, rp.Program))
		for _, l := range r.Trace {
			fmt.Println("  ", l)
		}
		fmt.Println("log:", strings.Join(r.Log, " | "))
		if ok, _ := linearizable(cs[rp.Program.Comp], lastHist); !ok {
			c.Violation(classify(cs[rp.Program.Comp], lastHist), rp, "history is not linearizable")
		}
		c.Finish()
	}
	c.Set("programs_total", len(progs))
	bound := 2
	// (1) linearizability
	c.Parallel(len(progs), func(i int) {
		p := progs[i]
		comp := cs[p.Comp]
		e := &sched.Explorer{Bound: bound, MaxSteps: 20000, Body: body(cs, p), VerifyEvery: 499, Stop: c.OutOfBudget}
		seen := map[string]bool{}
		e.Check = func(r sched.Result) bool {
			if r.Failure != "" {
				c.Violation(sigOf(r.Failure)+"/"+comp.Name, replay{p, p.describe(cs), r.Choices}, "%s\n  program: %s\n  schedule: %v", r.Failure, p.describe(cs), r.Choices)
				return false
			}
			key := strings.Join(r.Log, "|")
			if seen[key] {
				return true // the same history was already checked
			}
			seen[key] = true
			ok, replays := linearizable(comp, lastHist)
			c.Count("sequential_replays", int64(replays))
			if !ok {
				sig := classify(comp, lastHist)
				c.Violation(sig, replay{p, p.describe(cs), r.Choices}, "no sequential order of the calls (respecting non-overlapping calls) reproduces this concurrent history on the real %s run sequentially:\n  %s\n  program: %s\n  schedule: %v", comp.Name, key, p.describe(cs), r.Choices)
				return false
			}
			return true
		}
		e.Run()
		c.Count("evaluations", e.Execs)
		c.Count("scheduling_points", e.Points)
		c.Count("distinct_nontrivial", int64(len(seen)))
		c.Count("histories_checked_for_linearizability", int64(len(seen)))
		c.Count("programs/"+comp.Name, 1)
		if len(seen) > 1 {
			c.Count("programs_with_several_histories", 1)
		}
	})
	// (2) race freedom: the -race binary explores the same programs in chunks
	raceBin := os.Args[0] + "-race"
	if _, err := os.Stat(raceBin); err != nil {
		fmt.Println("ENGINE-ERROR: race binary missing:", raceBin)
		os.Exit(2)
	}
	rbound := 1
	chunk := 40
	nchunks := (len(progs) + chunk - 1) / chunk
	c.Parallel(nchunks, func(k int) {
		from, to := k*chunk, (k+1)*chunk
		logBase := fmt.Sprintf("%s/.work/race-c28/%d-%d", core.Root, os.Getpid(), k)
		os.MkdirAll(core.Root+"/.work/race-c28", 0o755)
		cmd := exec.Command(raceBin, "--race-child", fmt.Sprintf("%d:%d:%d", from, to, rbound), "--race-log", logBase)
		cmd.Env = append(os.Environ(), "VERIF_RACE_CHILD=1", "GOMAXPROCS=8", "VERIF_WORKER=", "GORACE=halt_on_error=0 atexit_sleep_ms=0 exitcode=0 log_path="+logBase)
		cmd.Stderr = os.Stderr
		out, err := cmd.Output() // the race runtime appends ".<pid>" to log_path; the child derives the same name
		if err != nil {
			fmt.Fprintf(os.Stderr, "ENGINE-ERROR race child %d-%d: %v\n%s\n", from, to, err, tail(out))
			os.Exit(3)
		}
		for _, line := range strings.Split(strings.TrimSpace(string(out)), "\n") {
			if line == "" {
				continue
			}
			var res raceRes
			if err := json.Unmarshal([]byte(line), &res); err != nil {
				fmt.Fprintf(os.Stderr, "ENGINE-ERROR race child output: %v: %.200s\n", err, line)
				os.Exit(3)
			}
			c.Count("race_mode_executions", res.Execs)
			c.Count("evaluations", res.Execs)
			c.Count("race_mode_programs", 1)
			p := progs[res.Prog]
			for ri, rep := range res.Reports {
				sig, inRepo := raceSig(rep)
				if !inRepo {
					c.Count("race_reports_outside_repository_code_ignored", 1)
					continue
				}
				c.Violation(sig, replay{p, p.describe(cs), res.Choices[ri]}, "data race reported by the Go race detector under the controlled scheduler\n  program: %s\n  schedule: %v\n%s", p.describe(cs), res.Choices[ri], indent(rep))
			}
			if res.Fail != "" {
				c.Violation("race-mode/"+sigOf(res.Fail), replay{p, p.describe(cs), nil}, "failure in the race build: %s (program %s)", res.Fail, p.describe(cs))
			}
		}
	})
	if c.Lead() {
		c.Set("rule", "evaluations = complete executions (linearizability mode + race mode); distinct_nontrivial = distinct concurrent histories checked for linearizability against the sequentially-run real component")
		c.Set("deviation_bound_linearizability", bound)
		c.Set("deviation_bound_race_mode", rbound)
		c.Sample(map[string]interface{}{"program": progs[len(progs)/3].describe(cs)})
		c.Sample(map[string]interface{}{"program": progs[len(progs)-1].describe(cs)})
		c.Assume("sequential reference = the real component executed sequentially on a fresh instance in the candidate order; iteration is executed but not compared (no isolation is promised for iterators)")
		c.Assume("race mode: Go race detector (happens-before) on every explored schedule; scheduler hand-offs use raw pipe syscalls and are invisible to it; reports with an access outside repository code are ignored")
		c.Set("exhaustive", true)
	}
	c.Finish()
}

func tail(b []byte) string {
	if len(b) > 2000 {
		return string(b[len(b)-2000:])
	}
	return string(b)
}

func indent(s string) string { return "    " + strings.ReplaceAll(s, "\n", "\n    ") }
