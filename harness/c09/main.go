// C09: epoch sealing switches cleanly to the new validator set; a Reset() instance behaves the same.
package main

import (
	"verif/cons"
	"verif/core"
)

func main() {
	c := core.New("C09", "model_checking")
	c.Set("rule", "epoch-1 DAG families (all small DAGs with a dominant validator; round DAGs with lagging validators = multi-frame roots) x sealing at every decided frame x next validator set in {same object, equal set, re-weighted with another canonical order, one removed, one added}; epoch 1 is explored over all orders (every sealing transition must give the same blocks and a clean post-seal state: epoch+1, exactly the returned set, no decided frames, no roots); epoch 2 (a round DAG over the new set) is explored over all orders from the shortest and longest sealing path and from instances Reset() to the new epoch from genesis and from a mid-epoch state; all must observe identical states")
	cons.ExploreEpochs(c, cons.Report{"epoch": true, "accept": true, "order": true, "ref": true, "content": true}, false)
	c.Set("exhaustive", !c.Capped())
	c.Finish()
}
