// C29: weighted LRU caches follow the LRU model.
// Explicit-state exploration of the real caches: states are canonical cache contents
// (ordered (key,weight,value) list + capacities); every operation of the alphabet is applied in
// every reachable state (successor = replay of the shortest path on a fresh instance + 1 op);
// after every step the real cache's complete observable state is compared with a list model.
package main

import (
	"fmt"
	"sort"
	"strings"

	"github.com/Fantom-foundation/lachesis-base/utils/simplewlru"
	"github.com/Fantom-foundation/lachesis-base/utils/wlru"
	"verif/core"
)

type cacheAPI interface {
	Purge()
	Add(key, value interface{}, weight uint) int
	Get(key interface{}) (interface{}, bool)
	Contains(key interface{}) bool
	Peek(key interface{}) (interface{}, bool)
	Remove(key interface{}) bool
	RemoveOldest() (interface{}, interface{}, bool)
	GetOldest() (interface{}, interface{}, bool)
	Keys() []interface{}
	Len() int
	Weight() uint
	Total() (uint, int)
	Resize(maxWeight uint, maxSize int) int
}

type orAdd interface {
	ContainsOrAdd(key, value interface{}, weight uint) (bool, int)
	PeekOrAdd(key, value interface{}, weight uint) (interface{}, bool, int)
}

type op struct {
	Kind string
	Key  string
	Val  string
	W    uint
	MaxW uint
	MaxN int
}

func (o op) String() string {
	switch o.Kind {
	case "Add", "ContainsOrAdd", "PeekOrAdd":
		return fmt.Sprintf("%s(%s,%s,w=%d)", o.Kind, o.Key, o.Val, o.W)
	case "Resize":
		return fmt.Sprintf("Resize(%d,%d)", o.MaxW, o.MaxN)
	case "Get", "Peek", "Contains", "Remove":
		return fmt.Sprintf("%s(%s)", o.Kind, o.Key)
	}
	return o.Kind + "()"
}

type ent struct {
	k, v string
	w    uint
}

type model struct {
	list []ent // oldest -> newest
	maxW uint
	maxN int
}

func (m *model) weight() (s uint) {
	for _, e := range m.list {
		s += e.w
	}
	return
}
func (m *model) find(k string) int {
	for i, e := range m.list {
		if e.k == k {
			return i
		}
	}
	return -1
}
func (m *model) normalize() (ev []ent) {
	for len(m.list) > 0 && (m.weight() > m.maxW || len(m.list) > m.maxN) {
		ev = append(ev, m.list[0])
		m.list = m.list[1:]
	}
	return
}
func (m *model) add(k, v string, w uint) []ent {
	if i := m.find(k); i >= 0 {
		m.list = append(m.list[:i:i], m.list[i+1:]...)
	}
	m.list = append(m.list, ent{k, v, w})
	return m.normalize()
}
func (m *model) key() string {
	var sb strings.Builder
	fmt.Fprintf(&sb, "%d/%d:", m.maxW, m.maxN)
	for _, e := range m.list {
		fmt.Fprintf(&sb, "%s=%s/%d,", e.k, e.v, e.w)
	}
	return sb.String()
}
func (m *model) clone() *model {
	return &model{append([]ent{}, m.list...), m.maxW, m.maxN}
}

// apply runs o on both; returns a description of a mismatch or "".
func apply(c cacheAPI, m *model, o op, evicted *[]ent) string {
	*evicted = (*evicted)[:0]
	var wantEv []ent
	res, want := "", ""
	switch o.Kind {
	case "Add":
		n := c.Add(o.Key, o.Val, o.W)
		wantEv = m.add(o.Key, o.Val, o.W)
		res, want = fmt.Sprint(n), fmt.Sprint(len(wantEv))
	case "ContainsOrAdd", "PeekOrAdd":
		oa, ok := c.(orAdd)
		if !ok {
			return ""
		}
		i := m.find(o.Key)
		if o.Kind == "ContainsOrAdd" {
			found, n := oa.ContainsOrAdd(o.Key, o.Val, o.W)
			res = fmt.Sprint(found, n)
			if i >= 0 {
				want = fmt.Sprint(true, 0)
			} else {
				wantEv = m.add(o.Key, o.Val, o.W)
				want = fmt.Sprint(false, len(wantEv))
			}
		} else {
			prev, found, n := oa.PeekOrAdd(o.Key, o.Val, o.W)
			res = fmt.Sprint(prev, found, n)
			if i >= 0 {
				want = fmt.Sprint(m.list[i].v, true, 0)
			} else {
				wantEv = m.add(o.Key, o.Val, o.W)
				want = fmt.Sprint(nil, false, len(wantEv))
			}
		}
	case "Get":
		v, ok := c.Get(o.Key)
		res = fmt.Sprint(v, ok)
		if i := m.find(o.Key); i >= 0 {
			e := m.list[i]
			m.list = append(append(m.list[:i:i], m.list[i+1:]...), e)
			want = fmt.Sprint(e.v, true)
		} else {
			want = fmt.Sprint(nil, false)
		}
	case "Peek":
		v, ok := c.Peek(o.Key)
		res = fmt.Sprint(v, ok)
		if i := m.find(o.Key); i >= 0 {
			want = fmt.Sprint(m.list[i].v, true)
		} else {
			want = fmt.Sprint(nil, false)
		}
	case "Contains":
		res, want = fmt.Sprint(c.Contains(o.Key)), fmt.Sprint(m.find(o.Key) >= 0)
	case "Remove":
		res = fmt.Sprint(c.Remove(o.Key))
		i := m.find(o.Key)
		want = fmt.Sprint(i >= 0)
		if i >= 0 {
			wantEv = []ent{m.list[i]}
			m.list = append(m.list[:i:i], m.list[i+1:]...)
		}
	case "RemoveOldest":
		k, v, ok := c.RemoveOldest()
		res = fmt.Sprint(k, v, ok)
		if len(m.list) > 0 {
			want = fmt.Sprint(m.list[0].k, m.list[0].v, true)
			wantEv = []ent{m.list[0]}
			m.list = m.list[1:]
		} else {
			want = fmt.Sprint(nil, nil, false)
		}
	case "GetOldest":
		k, v, ok := c.GetOldest()
		res = fmt.Sprint(k, v, ok)
		if len(m.list) > 0 {
			want = fmt.Sprint(m.list[0].k, m.list[0].v, true)
		} else {
			want = fmt.Sprint(nil, nil, false)
		}
	case "Resize":
		n := c.Resize(o.MaxW, o.MaxN)
		m.maxW, m.maxN = o.MaxW, o.MaxN
		wantEv = m.normalize()
		res, want = fmt.Sprint(n), fmt.Sprint(len(wantEv))
	case "Purge":
		c.Purge()
		wantEv = append(wantEv, m.list...)
		m.list = nil
	}
	if res != want {
		return fmt.Sprintf("%v returned %s, model says %s", o, res, want)
	}
	// eviction callbacks of this op: multiset equality (each removed entry once, last stored value)
	a, b := []string{}, []string{}
	for _, e := range *evicted {
		a = append(a, e.k+"="+e.v)
	}
	for _, e := range wantEv {
		b = append(b, e.k+"="+e.v)
	}
	if o.Kind != "Purge" { // evictions happen oldest first
		if fmt.Sprint(a) != fmt.Sprint(b) {
			return fmt.Sprintf("%v eviction callbacks %v, model %v (oldest first)", o, a, b)
		}
	}
	sort.Strings(a)
	sort.Strings(b)
	if fmt.Sprint(a) != fmt.Sprint(b) {
		return fmt.Sprintf("%v eviction callbacks %v, model %v", o, a, b)
	}
	return observe(c, m)
}

func observe(c cacheAPI, m *model) string {
	keys := c.Keys()
	if len(keys) != len(m.list) {
		return fmt.Sprintf("Keys()=%v, model %s", keys, m.key())
	}
	for i, k := range keys {
		if k != interface{}(m.list[i].k) {
			return fmt.Sprintf("Keys()=%v, model %s", keys, m.key())
		}
	}
	w, n := c.Total()
	if c.Len() != len(m.list) || c.Weight() != m.weight() || w != m.weight() || n != len(m.list) {
		return fmt.Sprintf("Len/Weight/Total = %d/%d/(%d,%d), model %d/%d", c.Len(), c.Weight(), w, n, len(m.list), m.weight())
	}
	if c.Len() > m.maxN || c.Weight() > m.maxW {
		return fmt.Sprintf("bounds exceeded: len %d > %d or weight %d > %d", c.Len(), m.maxN, c.Weight(), m.maxW)
	}
	for _, e := range m.list { // values via Peek (no recency change)
		if v, ok := c.Peek(e.k); !ok || v != interface{}(e.v) {
			return fmt.Sprintf("Peek(%s)=%v,%v model %s", e.k, v, ok, e.v)
		}
	}
	if k, v, ok := c.GetOldest(); ok != (len(m.list) > 0) || (ok && (k != interface{}(m.list[0].k) || v != interface{}(m.list[0].v))) {
		return fmt.Sprintf("GetOldest=%v,%v,%v model %s", k, v, ok, m.key())
	}
	return ""
}

type node struct {
	path []op
}

func main() {
	c := core.New("C29", "model_checking")
	keys := []string{"a", "b", "c"}
	vals := []string{"x", "y"}
	ws := []uint{0, 1, 2, 5}
	maxWs := []uint{0, 2, 4}
	maxNs := []int{0, 1, 2, 3}
	if !c.Quick() {
		maxWs = []uint{0, 2, 4, 7}
	}
	var ops []op
	for _, k := range keys {
		for _, v := range vals {
			for _, w := range ws {
				ops = append(ops, op{Kind: "Add", Key: k, Val: v, W: w}, op{Kind: "ContainsOrAdd", Key: k, Val: v, W: w}, op{Kind: "PeekOrAdd", Key: k, Val: v, W: w})
			}
		}
		ops = append(ops, op{Kind: "Get", Key: k}, op{Kind: "Peek", Key: k}, op{Kind: "Contains", Key: k}, op{Kind: "Remove", Key: k})
	}
	ops = append(ops, op{Kind: "RemoveOldest"}, op{Kind: "GetOldest"}, op{Kind: "Purge"})
	for _, mw := range maxWs {
		for _, mn := range maxNs {
			ops = append(ops, op{Kind: "Resize", MaxW: mw, MaxN: mn})
		}
	}
	c.Set("alphabet_ops", len(ops))
	type cfg struct {
		impl string
		mw   uint
		mn   int
	}
	var cfgs []cfg
	for _, impl := range []string{"simplewlru", "wlru"} {
		for _, mw := range maxWs {
			for _, mn := range maxNs {
				cfgs = append(cfgs, cfg{impl, mw, mn})
			}
		}
	}
	c.Parallel(len(cfgs), func(ci int) {
		cf := cfgs[ci]
		var evicted []ent
		mk := func() cacheAPI {
			cb := func(k, v interface{}) { evicted = append(evicted, ent{k.(string), v.(string), 0}) }
			if cf.impl == "wlru" {
				x, _ := wlru.NewWithEvict(cf.mw, cf.mn, cb)
				return x
			}
			x, _ := simplewlru.NewWithEvict(cf.mw, cf.mn, cb)
			return x
		}
		init := &model{maxW: cf.mw, maxN: cf.mn}
		seen := map[string]bool{init.key(): true}
		type st struct {
			m    *model
			path []op
		}
		frontier := []st{{init, nil}}
		var states, trans int64 = 1, 0
		var probes int64
		probeSeqs := [][]op{
			{{Kind: "Get", Key: "a"}, {Kind: "Get", Key: "b"}, {Kind: "Get", Key: "c"}, {Kind: "Add", Key: "a", Val: "y", W: 1}, {Kind: "Get", Key: "a"}, {Kind: "GetOldest"}, {Kind: "RemoveOldest"}},
			// another key is added, then key k is hit - with no other hit in between (one sequence per k)
			{{Kind: "Add", Key: "b", Val: "y", W: 1}, {Kind: "Get", Key: "a"}, {Kind: "GetOldest"}},
			{{Kind: "Add", Key: "c", Val: "y", W: 1}, {Kind: "Get", Key: "b"}, {Kind: "GetOldest"}},
			{{Kind: "Add", Key: "a", Val: "y", W: 1}, {Kind: "Get", Key: "c"}, {Kind: "GetOldest"}},
		}
		maxDepth := 0
		for len(frontier) > 0 && !c.OutOfBudget() {
			cur := frontier[0]
			frontier = frontier[1:]
			for _, o := range ops {
				if (o.Kind == "ContainsOrAdd" || o.Kind == "PeekOrAdd") && cf.impl != "wlru" {
					continue
				}
				// fresh real instance, replay the shortest path (checked again: determinism), then the new op
				real := mk()
				m := &model{maxW: cf.mw, maxN: cf.mn}
				for _, po := range cur.path {
					if msg := apply(real, m, po, &evicted); msg != "" {
						c.Violation("replay-diverged", append(append([]op{}, cur.path...), o), "replay of an already-checked path diverged: %s", msg)
						return
					}
				}
				if m.key() != cur.m.key() {
					panic("model nondeterministic")
				}
				trans++
				if msg := apply(real, m, o, &evicted); msg != "" {
					path := append(append([]op{}, cur.path...), o)
					c.Violation(cf.impl+"/"+o.Kind, map[string]interface{}{"impl": cf.impl, "maxWeight": cf.mw, "maxSize": cf.mn, "ops": path},
						"%s(maxWeight=%d,maxSize=%d) after %v: %s", cf.impl, cf.mw, cf.mn, path, msg)
					continue
				}
				k := m.key()
				if seen[k] {
					// This state was reached before along another path and is not expanded again.  That merge is sound
					// only if the cache has no state beyond the ordered entry list (see dedup_argument); to notice a
					// change that adds hidden history-dependent state, every such duplicate arrival is probed on the
					// same real object with a short fixed continuation (a hit on every key, a re-add, the oldest).
					for pi, probe := range probeSeqs {
						pr, pm := real, m
						if pi > 0 { // a fresh object in the same (merged) state, reached along the same path
							pr, pm = mk(), &model{maxW: cf.mw, maxN: cf.mn}
							for _, po := range append(append([]op{}, cur.path...), o) {
								apply(pr, pm, po, &evicted)
							}
						}
						probePath := append(append([]op{}, cur.path...), o)
						for _, po := range probe {
							probes++
							probePath = append(probePath, po)
							if msg := apply(pr, pm, po, &evicted); msg != "" {
								c.Violation(cf.impl+"/"+po.Kind, map[string]interface{}{"impl": cf.impl, "maxWeight": cf.mw, "maxSize": cf.mn, "ops": probePath},
									"%s(maxWeight=%d,maxSize=%d) after %v: %s", cf.impl, cf.mw, cf.mn, probePath, msg)
								break
							}
						}
					}
				}
				if !seen[k] {
					seen[k] = true
					states++
					np := append(append([]op{}, cur.path...), o)
					if len(np) > maxDepth {
						maxDepth = len(np)
					}
					frontier = append(frontier, st{m, np})
					if states%1000 == 2 {
						c.Sample(map[string]interface{}{"impl": cf.impl, "ops": fmt.Sprint(np), "state": k})
					}
				}
			}
		}
		c.Count("states", states)
		c.Count("transitions", trans+probes)
		c.Count("duplicate_arrival_probe_steps", probes)
		c.Count("traces_validated_against_impl", trans)
		c.Count("configs_completed", 1)
		c.Distinct("max_depth_values", fmt.Sprint(maxDepth))
		if len(frontier) > 0 {
			c.Set("exhaustive", false)
		}
	})
	c.Set("exhaustive", !c.Capped())
	c.Set("dedup_argument", "state key = ordered (key,value,weight) list + (maxWeight,maxSize); the cache has no other fields (list, map, weight, bounds), so equal keys have equal futures")
	c.Set("rule", "full reachable state graph per (implementation, initial capacity); every op of the alphabet applied in every state")
	c.Assume("eviction callbacks are compared per operation; for Purge as a multiset (map iteration order is unspecified), otherwise oldest-first")
	c.Finish()
}
