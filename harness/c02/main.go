// C02: each block delivers exactly the new ancestry of its Atropos (graph-based monitor on the
// callback stream of every explored execution; independent of the code's own traversal).
package main

import (
	"verif/cons"
	"verif/core"
)

func main() {
	c := core.New("C02", "model_checking")
	c.Set("rule", "same lattice exploration as C01; on every edge the emitted blocks are checked: delivered set == ancestors-or-self of the Atropos minus everything delivered by earlier blocks of the epoch, nothing delivered twice, frames consecutive from 1 per epoch, Atropos is a registered root of its frame, last decided frame == number of blocks")
	// quick tier: the (small) multi-epoch part first, so that a wall-clock cap on a loaded machine cannot starve it;
	// thorough tier: the multi-epoch part is large and comes last (its quick version ran in the quick stage)
	epochs := func() { cons.ExploreEpochs(c, cons.Report{"content": true}, true) }
	if c.Quick() {
		epochs()
	}
	cons.ExploreConsensus(c, cons.DefaultConsFamilies(c.Quick(), true).Light(), cons.Report{"content": true})
	if !c.Quick() {
		epochs()
	}
	c.Finish()
}
