#!/bin/bash
set -e
cd /verif
export GOFLAGS=-mod=mod GOPROXY=off GOSUMDB=off GOTOOLCHAIN=local
go build -o .work/bin/instrument ./tools/instrument
.work/bin/instrument -repo /repo -out /verif/.work/c26 -maprange 'kvdb/multidb/producer.go=routingTable'
