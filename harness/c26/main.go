// C26: multi-DB routing is deterministic and isolating.
//
// Bounded-exhaustive enumeration of routing tables (a default route plus up to 1-2 further routes
// over exact, nested and pattern requests, two database types, fixed / formatted names, tables
// {"", t, tt, u}) x every iteration order of the routing map inside NewProducer (the map range is
// owned through the vmap shim, all permutations) x every request sequence up to length 3 over
// {a, a/b, a/b/c, a/q, g-1, g-x, x-1/t, z} x every single-route edit of the table for Verify.
//
// Checks: RouteOf identical for every map order and on repeated calls; a request whose table overlaps
// (prefix-wise) the table of another opened request in the same database is refused; successfully
// opened stores of different requests never see each other's keys (probe keys written through each,
// full iteration through all); re-opening on the same producer and on a new producer over the same
// databases (every map order) reaches the same data; Verify() on a producer with an edited table
// fails exactly when some recorded request is now routed to another type, name or table.
package main

import (
	"fmt"
	"sort"
	"strings"

	"github.com/Fantom-foundation/lachesis-base/kvdb"
	"github.com/Fantom-foundation/lachesis-base/kvdb/multidb"
	"verif/core"
	"verif/mc/vmap"
	"verif/ref/kv"
)

var recordsKey = []byte("\xfe\xfdrecords")

// ---- in-memory "disk" producer ----------------------------------------------------------------

type disk struct {
	dbs map[string]map[string][]byte
}

func newDisk() *disk { return &disk{dbs: map[string]map[string][]byte{}} }

func (d *disk) OpenDB(name string) (kvdb.Store, error) {
	m, ok := d.dbs[name]
	if !ok {
		m = map[string][]byte{}
		d.dbs[name] = m
	}
	s := &kv.Store{Name: name, M: m}
	s.OnDrop = func() {
		for k := range m {
			delete(m, k)
		}
		delete(d.dbs, name)
	}
	return s, nil
}
func (d *disk) Names() []string {
	var n []string
	for k := range d.dbs {
		n = append(n, k)
	}
	sort.Strings(n)
	return n
}
func (d *disk) NotFlushedSizeEst() int                           { return 0 }
func (d *disk) Flush(id []byte) error                            { return nil }
func (d *disk) Initialize(n []string, id []byte) ([]byte, error) { return id, nil }
func (d *disk) Close() error                                     { return nil }

// ---- routing tables --------------------------------------------------------------------------

type entry struct {
	Req   string
	Route multidb.Route
}

type rtable []entry // entry 0 is the default route

func (t rtable) m() map[string]multidb.Route {
	m := map[string]multidb.Route{}
	for _, e := range t {
		m[e.Req] = e.Route
	}
	return m
}

func (t rtable) String() string {
	var s []string
	for _, e := range t {
		s = append(s, fmt.Sprintf("%q->%s/%q/%q", e.Req, e.Route.Type, e.Route.Name, e.Route.Table))
	}
	return "{" + strings.Join(s, ", ") + "}"
}

var probes = []string{"a", "a/b", "a/b/c", "a/q", "g-1", "g-x", "x-1/t", "z"}

// newProducer builds a producer over the disks with the k-th iteration order of the routing map.
func newProducer(disks map[multidb.TypeName]kvdb.FullDBProducer, t rtable, perm int) (*multidb.Producer, error, int) {
	nperm := 1
	vmap.ResetSeq()
	vmap.Permute = func(loop, n int) []int {
		if loop != 0 {
			return nil
		}
		nperm = vmap.Fact(n)
		return vmap.NthPerm(n, perm%nperm)
	}
	p, err := multidb.NewProducer(disks, t.m(), recordsKey)
	vmap.Permute = nil
	return p, err, nperm
}

func overlap(a, b string) bool { return strings.HasPrefix(a, b) || strings.HasPrefix(b, a) }

func keysOf(s kvdb.Store) []string {
	var out []string
	it := s.NewIterator(nil, nil)
	defer it.Release()
	for it.Next() {
		if strings.Contains(string(it.Key()), string(recordsKey)) || string(it.Key()) == string(recordsKey) {
			continue // the metadata key is excluded by the statement
		}
		out = append(out, string(it.Key())+"="+string(it.Value()))
	}
	return out
}

type scenario struct {
	Table   string
	Perm    int
	Seq     []string
	EditIdx int
	Edit    string
}

func checkTable(c *core.Ctx, t rtable, seqLen int) {
	mkDisks := func() map[multidb.TypeName]kvdb.FullDBProducer {
		return map[multidb.TypeName]kvdb.FullDBProducer{"T1": newDisk(), "T2": newDisk()}
	}
	// (1) determinism of RouteOf over map orders and repeated calls
	p0, err, nperm := newProducer(mkDisks(), t, 0)
	if err != nil {
		c.Count("tables_rejected_by_NewProducer", 1)
		return
	}
	c.Count("routing_tables", 1)
	base := map[string]multidb.Route{}
	for _, req := range append(append([]string{}, probes...), "", "g-12/t", "x-7", "a/b/c/d") {
		base[req] = p0.RouteOf(req)
		if p0.RouteOf(req) != base[req] {
			c.Violation("routeof-unstable", scenario{Table: t.String(), Seq: []string{req}}, "RouteOf(%q) differs between two calls on the same producer, table %s", req, t)
		}
	}
	ambiguous := false
	for k := 1; k < nperm; k++ {
		pk, err, _ := newProducer(mkDisks(), t, k)
		if err != nil {
			c.Violation("newproducer-order-dependent", scenario{Table: t.String(), Perm: k}, "NewProducer fails only for map order %d: %v (table %s)", k, err, t)
			return
		}
		for req, want := range base {
			c.Count("evaluations", 1)
			if got := pk.RouteOf(req); got != want {
				ambiguous = true
				c.Violation("routing-depends-on-map-order", scenario{Table: t.String(), Perm: k, Seq: []string{req}},
					"RouteOf(%q) = %+v with one iteration order of the routing map and %+v with another: routing is not deterministic across producers / restarts (table %s)", req, want, got, t)
			}
		}
	}
	if ambiguous {
		return
	}
	// (2)-(4) request sequences
	var rec func(seq []string)
	run := func(seq []string) {
		c.Count("evaluations", 1)
		c.Count("request_sequences", 1)
		disks := mkDisks()
		p, _, _ := newProducer(disks, t, 0)
		type opened struct {
			req   string
			route multidb.Route
			st    kvdb.Store
		}
		var ok []opened
		find := func(req string) *opened {
			for i := range ok {
				if ok[i].req == req {
					return &ok[i]
				}
			}
			return nil
		}
		sc := scenario{Table: t.String(), Seq: seq}
		for _, req := range seq {
			if strings.HasPrefix(req, "!") {
				// Drop() through the store opened for this request: the whole database goes, with every table
				// and the table records in it; every store opened in that database is gone
				o := find(req[1:])
				if o == nil || o.route.NoDrop {
					return // not applicable
				}
				o.st.Drop()
				var keep []opened
				for _, x := range ok {
					if !(x.route.Type == o.route.Type && x.route.Name == o.route.Name) {
						keep = append(keep, x)
					}
				}
				ok = keep
				c.Count("drops", 1)
				continue
			}
			route := p.RouteOf(req)
			st, err := p.OpenDB(req)
			if prev := find(req); prev != nil {
				if err != nil {
					c.Violation("reopen-refused", sc, "re-opening %q on the same producer failed: %v (table %s, sequence %v)", req, err, t, seq)
					return
				}
				continue
			}
			conflict := ""
			for _, o := range ok {
				if o.route.Type == route.Type && o.route.Name == route.Name && overlap(o.route.Table, route.Table) {
					conflict = o.req
				}
			}
			if err == nil && conflict != "" {
				c.Violation("overlapping-table-not-refused", sc, "OpenDB(%q) -> %s/%q table %q succeeded although %q holds table %q in the same database (table %s, sequence %v)", req, route.Type, route.Name, route.Table, conflict, find(conflict).route.Table, t, seq)
				return
			}
			if err != nil {
				if conflict == "" {
					c.Count("refused_without_overlap", 1)
				} else {
					c.Count("refused_overlaps", 1)
				}
				continue
			}
			ok = append(ok, opened{req, route, st})
		}
		if len(ok) == 0 {
			return
		}
		// isolation probes
		for i, o := range ok {
			if err := o.st.Put([]byte(fmt.Sprintf("k%d", i)), []byte(o.req)); err != nil {
				c.Violation("probe-write-failed", sc, "Put through the store of %q failed: %v", o.req, err)
				return
			}
		}
		for i, o := range ok {
			want := fmt.Sprintf("k%d=%s", i, o.req)
			got := keysOf(o.st)
			if len(got) != 1 || got[0] != want {
				c.Violation("stores-not-isolated", sc, "the store opened for %q (-> %s/%q table %q) contains %q, expected only its own probe %q (table %s, sequence %v)", o.req, o.route.Type, o.route.Name, o.route.Table, got, want, t, seq)
				return
			}
		}
		if len(ok) > 1 {
			c.Count("distinct_nontrivial", 1)
		}
		// (3) re-open on the same producer and after a restart with every map order
		for k := -1; k < nperm; k++ {
			pp := p
			if k >= 0 {
				pp, _, _ = newProducer(disks, t, k)
			}
			for i, o := range ok {
				if r := pp.RouteOf(o.req); r != o.route {
					c.Violation("reopen-other-route", sc, "%q was opened as %+v and is routed to %+v after a restart (map order %d) (table %s)", o.req, o.route, r, k, t)
					return
				}
				st, err := pp.OpenDB(o.req)
				if err != nil {
					c.Violation("reopen-refused", sc, "re-opening %q (restart=%v, map order %d) failed: %v (table %s, sequence %v)", o.req, k >= 0, k, err, t, seq)
					return
				}
				want := fmt.Sprintf("k%d=%s", i, o.req)
				if got := keysOf(st); len(got) != 1 || got[0] != want {
					c.Violation("reopen-other-data", sc, "re-opening %q (restart=%v) shows %q, expected %q (table %s, sequence %v)", o.req, k >= 0, got, want, t, seq)
					return
				}
			}
			if err := pp.Verify(); err != nil {
				c.Violation("verify-fails-unchanged", sc, "Verify() fails with an unchanged routing table: %v (table %s, sequence %v)", err, t, seq)
				return
			}
		}
		// (4) Verify against every single-route edit
		for ei := range t {
			for _, ed := range edits(t, ei) {
				p2, err, np2 := newProducer(disks, ed.t, 0)
				if err != nil {
					continue
				}
				moved, amb := "", false
				for _, o := range ok {
					r := p2.RouteOf(o.req)
					for k := 1; k < np2 && !amb; k++ {
						pk, _, _ := newProducer(disks, ed.t, k)
						if pk != nil && pk.RouteOf(o.req) != r {
							amb = true
						}
					}
					if r.Type != o.route.Type || r.Name != o.route.Name || r.Table != o.route.Table {
						moved = o.req
					}
				}
				if amb {
					continue
				}
				c.Count("evaluations", 1)
				c.Count("verify_edits", 1)
				verr := p2.Verify()
				sc2 := sc
				sc2.EditIdx, sc2.Edit = ei, ed.what
				if moved != "" && verr == nil {
					c.Violation("verify-misses-rerouting", sc2, "Verify() returns nil although %q, recorded under the old table, is now routed elsewhere (edit: %s; old table %s, sequence %v)", moved, ed.what, t, seq)
					return
				}
				if moved == "" && verr != nil {
					c.Violation("verify-false-alarm", sc2, "Verify() fails (%v) although every recorded request keeps its type, name and table (edit: %s; old table %s, sequence %v)", verr, ed.what, t, seq)
					return
				}
				if moved != "" {
					c.Count("verify_detected_rerouting", 1)
				}
			}
		}
		// (5) second pass (OpenDB records requests, so it must not run between the Verify checks above)
		for ei := range t {
			for _, ed := range edits(t, ei) {
				p2, err, _ := newProducer(disks, ed.t, 0)
				if err != nil {
					continue
				}
				sc2 := sc
				sc2.EditIdx, sc2.Edit = ei, ed.what
				// re-opening the recorded requests on the producer with the edited table: a request that is now routed
				// into (an overlap of) another recorded request's table in the same database must be refused, and
				// whatever is opened must still see only its own probe
				for i, o := range ok {
					r := p2.RouteOf(o.req)
					st, oerr := p2.OpenDB(o.req)
					c.Count("reopens_after_edit", 1)
					if oerr != nil {
						continue
					}
					for _, x := range ok {
						if x.req != o.req && x.route.Type == r.Type && x.route.Name == r.Name && overlap(x.route.Table, r.Table) {
							c.Violation("overlapping-table-not-refused-after-restart", sc2, "after a restart with an edited routing table (%s) OpenDB(%q) -> %s/%q table %q succeeded although the recorded request %q holds table %q in that database (old table %s, sequence %v)", ed.what, o.req, r.Type, r.Name, r.Table, x.req, x.route.Table, t, seq)
							return
						}
					}
					if r == o.route {
						want := fmt.Sprintf("k%d=%s", i, o.req)
						if got := keysOf(st); len(got) != 1 || got[0] != want {
							c.Violation("reopen-other-data-after-edit", sc2, "re-opening %q (route unchanged by the edit %s) shows %q, expected %q (old table %s, sequence %v)", o.req, ed.what, got, want, t, seq)
							return
						}
					}
				}
			}
		}
	}
	rec = func(seq []string) {
		if len(seq) > 0 {
			run(seq)
		}
		if len(seq) == seqLen || c.Violations() > 0 {
			return
		}
		for _, r := range probes {
			rec(append(append([]string{}, seq...), r))
		}
	}
	rec(nil)
	// open, drop, re-open, then every second request (and the permutations with the second request first)
	for _, x := range probes {
		for _, y := range probes {
			if c.Violations() > 0 {
				return
			}
			run([]string{x, "!" + x, x, y})
			run([]string{x, "!" + x, y, x})
			if x != y {
				run([]string{y, x, "!" + x, x, y})
			}
		}
	}
}

type edited struct {
	t    rtable
	what string
}

func edits(t rtable, i int) []edited {
	var out []edited
	cp := func() rtable { return append(rtable{}, t...) }
	e := t[i]
	other := multidb.TypeName("T1")
	if e.Route.Type == "T1" {
		other = "T2"
	}
	x := cp()
	x[i].Route.Type = other
	out = append(out, edited{x, fmt.Sprintf("type of %q -> %s", e.Req, other)})
	x = cp()
	x[i].Route.Table = e.Route.Table + "u"
	out = append(out, edited{x, fmt.Sprintf("table of %q -> %q", e.Req, e.Route.Table+"u")})
	if !strings.Contains(e.Route.Name, "%") {
		x = cp()
		x[i].Route.Name = e.Route.Name + "2"
		out = append(out, edited{x, fmt.Sprintf("name of %q -> %q", e.Req, e.Route.Name+"2")})
	}
	if i > 0 {
		x = append(cp()[:i], cp()[i+1:]...)
		out = append(out, edited{x, fmt.Sprintf("route %q removed", e.Req)})
	}
	// the request is sent into the table of another route of the same database
	for j, o := range t {
		if j != i && o.Route.Type == e.Route.Type && o.Route.Name == e.Route.Name && o.Route.Table != e.Route.Table {
			x = cp()
			x[i].Route.Table = o.Route.Table
			out = append(out, edited{x, fmt.Sprintf("table of %q -> %q (the table of %q)", e.Req, o.Route.Table, o.Req)})
		}
	}
	return out
}

func main() {
	c := core.New("C26", "exploration")
	quick := c.Quick()
	if c.Replay != "" {
		fmt.Println("replay: the scenario in the artefact names the routing table, map order, request sequence and edit; re-run the check to reproduce (the enumeration is deterministic)")
		c.Finish()
	}
	types := []multidb.TypeName{"T1", "T2"}
	tables := []string{"", "t", "tt", "u"}
	var defaults []entry
	for _, ty := range types {
		for _, name := range []string{"", "m"} {
			for _, tb := range []string{"", "t"} {
				if ty == "T2" && (name == "m" || tb == "t") && quick {
					continue
				}
				defaults = append(defaults, entry{"", multidb.Route{Type: ty, Name: name, Table: tb}})
			}
		}
	}
	var extras []entry
	for _, req := range []string{"a", "a/b", "g-%d", "g-%s", "x-%d/t", "a/%s"} {
		names := []string{"m", "n"}
		if strings.Contains(req, "%d") {
			names = append(names, "g-%d")
		}
		if strings.Contains(req, "%s") {
			names = append(names, "g-%s")
		}
		for _, ty := range types {
			for _, name := range names {
				for _, tb := range tables {
					extras = append(extras, entry{req, multidb.Route{Type: ty, Name: name, Table: tb}})
				}
			}
		}
	}
	var all []rtable
	for _, d := range defaults {
		all = append(all, rtable{d})
		for _, e := range extras {
			all = append(all, rtable{d, e})
		}
	}
	// two extra routes: a reduced product (first default variants, routes with different requests)
	nd := 2
	if !quick {
		nd = len(defaults)
	}
	for _, d := range defaults[:nd] {
		for i, e1 := range extras {
			for j, e2 := range extras {
				if j <= i || e1.Req == e2.Req {
					continue
				}
				if quick && (e1.Route.Table == "tt" || e2.Route.Table == "tt" || e1.Route.Name == "n" || e2.Route.Name == "n") {
					continue
				}
				all = append(all, rtable{d, e1, e2})
			}
		}
	}
	c.Set("routing_tables_total", len(all))
	c.Parallel(len(all), func(i int) {
		t := all[i]
		l := 3
		if len(t) == 3 {
			l = 2
			if !quick {
				l = 3
			}
		}
		checkTable(c, t, l)
	})
	if c.Lead() {
		c.Set("rule", "evaluations = RouteOf comparisons across map orders + request sequences executed + Verify calls on edited tables; distinct_nontrivial = request sequences in which two or more different requests were opened and probed for isolation")
		c.Sample(map[string]interface{}{"routing_table": all[len(all)/2].String(), "probes": probes})
		c.Sample(map[string]interface{}{"routing_table": all[len(all)-1].String()})
		c.Assume("the iteration order of the routing map in NewProducer is owned through the vmap shim (overlay generated from /repo on every run); all permutations are enumerated")
		c.Assume("database types are backed by separate in-memory producers; the metadata key is excluded from isolation probes")
		c.Assume("only 'overlap => refused' is demanded, a refusal without overlap is counted, not reported")
		c.Set("exhaustive", true)
	}
	c.Finish()
}
