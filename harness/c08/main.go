// C08: restart at any event boundary is invisible.
// For every DAG and every parents-first order prefix (ideal lattice), the instance is restarted
// (databases copied as persisted; store caches, vector index and election rebuilt by Bootstrap)
// before the next event; everything observable afterwards, including the raw databases, must equal
// the uninterrupted run of the same order.  Also: a restart after EVERY event of a full run, and
// multi-epoch runs restarted right after the seal / after a Reset / inside the new epoch.
package main

import (
	"fmt"
	"github.com/Fantom-foundation/lachesis-base/vecfc"
	"math/bits"

	"github.com/Fantom-foundation/lachesis-base/hash"
	"github.com/Fantom-foundation/lachesis-base/inter/idx"
	"verif/cons"
	"verif/core"
	"verif/ref/kv"
	lref "verif/ref/lachesis"
)

func firstDiff(a, b string) string {
	i := 0
	for i < len(a) && i < len(b) && a[i] == b[i] {
		i++
	}
	lo := i - 70
	if lo < 0 {
		lo = 0
	}
	cut := func(s string) string {
		hi := i + 70
		if hi > len(s) {
			hi = len(s)
		}
		if lo > len(s) {
			return ""
		}
		return s[lo:hi]
	}
	return fmt.Sprintf("uninterrupted ...%q... / restarted ...%q...", cut(a), cut(b))
}

func checkDAG(c *core.Ctx, d *lref.DAG, desc string, cfg cons.Config) {
	vals := cons.Validators(d)
	evs, byID := cons.Events(d)
	name := func(id hash.Event) string {
		if i, ok := byID[id]; ok {
			return fmt.Sprintf("e%d", i)
		}
		return "?"
	}
	maxFrame := 0
	for _, e := range d.Events {
		if e.Frame > maxFrame {
			maxFrame = e.Frame
		}
	}
	observe := func(node *cons.Node, mask uint64) string {
		var ids []hash.Event
		for m := mask; m != 0; m &= m - 1 {
			ids = append(ids, evs[bits.TrailingZeros64(m)].ID())
		}
		s := node.Observe(name, ids, maxFrame+1) + "|db=main{" + kv.Contents(node.MainDB.M) + "}"
		if db, ok := node.EpochDB[idx.Epoch(d.Epoch)]; ok {
			s += "epoch{" + kv.Contents(db.M) + "}"
		}
		return s
	}
	byz := d.ForkersWeight(d.Full())*3 >= d.Total()
	_, edges, _ := cons.Lattice(d, 20000, c.OutOfBudget, func(path []int, e int, nm uint64) bool {
		seq := append(append([]int{}, path...), e)
		replay := func(at string) interface{} {
			return map[string]interface{}{"dag": d.String(), "family": desc, "order": seq, "restart": at}
		}
		// uninterrupted
		a := cons.NewNode(cfg, idx.Epoch(d.Epoch), vals)
		var lastErr string
		for k, x := range seq {
			err, crit := a.Process(evs[x])
			lastErr = fmt.Sprint(err, crit)
			if (err != nil || crit != "") && !byz && k < len(seq)-1 {
				return false // an earlier event is refused: judged on the edge where it was the last one
			}
			// a refusal of the LAST event is still compared with the restarted instance below: an instance that
			// was restarted right before must refuse (or accept) it alike
		}
		want := observe(a, nm) + "|last=" + lastErr
		// restarted right before the last event
		b := cons.NewNode(cfg, idx.Epoch(d.Epoch), vals)
		for _, x := range path {
			b.Process(evs[x])
		}
		r, rerr := b.Restart()
		if rerr != nil {
			c.Violation("restart/bootstrap-failed", replay(fmt.Sprintf("before e%d", e)), "restart after %v failed: %v [%v]", path, rerr, replay(""))
			return false
		}
		err, crit := r.Process(evs[e])
		got := observe(r, nm) + "|last=" + fmt.Sprint(err, crit)
		c.Count("restarts", 1)
		if got != want {
			c.Violation("restart/visible", replay(fmt.Sprintf("before e%d", e)), "restarting after %v and then processing e%d differs from the uninterrupted run: %s [%v]", path, e, firstDiff(want, got), replay(""))
			return false
		}
		// and restarted right after the last event (e.g. right after a decision): state must be the same
		r2, rerr := a.Restart()
		if rerr != nil {
			c.Violation("restart/bootstrap-failed", replay(fmt.Sprintf("after e%d", e)), "restart after %v failed: %v [%v]", seq, rerr, replay(""))
			return false
		}
		c.Count("restarts", 1)
		if got2 := observe(r2, nm) + "|last=" + lastErr; got2 != want {
			c.Violation("restart/state-changed", replay(fmt.Sprintf("after e%d", e)), "state after restarting (no event processed) differs: %s [%v]", firstDiff(want, got2), replay(""))
			return false
		}
		return err == nil && crit == ""
	})
	c.Count("transitions", int64(edges))
	// a restart after every event of the index-order run, and double restarts
	{
		a := cons.NewNode(cfg, idx.Epoch(d.Epoch), vals)
		b := cons.NewNode(cfg, idx.Epoch(d.Epoch), vals)
		var mask uint64
		for x := range evs {
			e1, c1 := a.Process(evs[x])
			var rerr error
			b, rerr = b.Restart()
			if rerr == nil {
				b, rerr = b.Restart() // twice in a row
			}
			if rerr != nil {
				c.Violation("restart/bootstrap-failed", map[string]interface{}{"dag": d.String(), "restart": fmt.Sprintf("before every event, here e%d", x)}, "restart failed: %v", rerr)
				break
			}
			e2, c2 := b.Process(evs[x])
			mask |= 1 << uint(x)
			c.Count("restarts", 2)
			if (e1 != nil || c1 != "") && !byz && fmt.Sprint(e1, c1) == fmt.Sprint(e2, c2) {
				break // both refuse alike: not a restart matter (C01 judges acceptance)
			}
			if fmt.Sprint(e1, c1) != fmt.Sprint(e2, c2) || observe(a, mask) != observe(b, mask) {
				c.Violation("restart/visible-every-boundary", map[string]interface{}{"dag": d.String(), "family": desc, "restart": "twice before every event (index order)", "diverged_at": x},
					"restarting before every event diverges at e%d: results (%v,%s) vs (%v,%s); %s", x, e1, c1, e2, c2, firstDiff(observe(a, mask), observe(b, mask)))
				break
			}
			if e1 != nil || c1 != "" {
				break
			}
		}
	}
	c.Count("dags", 1)
}

func main() {
	c := core.New("C08", "fault_enumeration")
	quick := c.Quick()
	c.Set("rule", "fault = process restart (in-memory state lost, persisted main/epoch databases kept); enumerated at every event boundary of every parents-first order (ideal lattice edges: restart before and after the last event), twice before every event of a full run, and in multi-epoch runs right after the seal, after Reset and inside the new epoch; distinct non-trivial = restarts at boundaries where at least one block was already decided or a fork is stored")
	var fams []cons.GenCfg
	add := func(w cons.WeightVec, n, forks int) {
		fams = append(fams, cons.GenCfg{Weights: w.W, IDs: w.IDs, Epoch: 1, N: n, ForkBudget: forks, MaxLevelSet: 100000})
	}
	if quick {
		add(cons.WV(3, 1), 6, 0)
		add(cons.WV(3, 1), 5, 1)
		add(cons.WV(5, 1, 1), 4, 1)
		add(cons.WV(1, 1, 1), 4, 1)
	} else {
		add(cons.WV(3, 1), 8, 0)
		add(cons.WV(3, 1), 6, 2)
		add(cons.WV(5, 1, 1), 5, 1)
		add(cons.WV(1, 1, 1), 5, 2)
		add(cons.WV(1, 1, 1, 1), 5, 1)
	}
	// instances alternate between the default cache sizes and tiny caches (a root list that does not fit the roots
	// cache, vector caches of size zero): the running instance then depends on its caches, the restarted one on the DB
	tiny := cons.DefaultConfig()
	tiny.Store.Cache.RootsNum, tiny.Store.Cache.RootsFrames = 2, 1
	tiny.Index = vecfc.IndexConfig{}
	cfgList := []cons.Config{cons.DefaultConfig(), tiny}
	k := 0
	nextCfg := func() cons.Config { k++; return cfgList[k%len(cfgList)] }
	item := 0
	for _, g := range fams {
		cons.GenAll(g, 2, func(d *lref.DAG) {
			item++
			if !c.Mine(item) || c.OutOfBudget() {
				return
			}
			checkDAG(c, d, fmt.Sprintf("F-all/F-fork weights=%v N=%d forks<=%d", g.Weights, g.N, g.ForkBudget), nextCfg())
			if item%2001 == 1 {
				c.Sample(map[string]interface{}{"dag": d.String(), "restart_points": "before and after the last event of every parents-first order prefix; twice before every event"})
			}
		})
	}
	rounds := []cons.RoundCfg{
		{W: cons.WV(1, 1, 1, 1), Epoch: 1, R: 8, Dev: 0, Fork: true, ForkRounds: 3},
		{W: cons.WV(2, 1, 1), Epoch: 1, R: 8, Dev: 1, DevRounds: 2, Fork: true, ForkRounds: 2},
		{W: cons.WV(3, 1), Epoch: 1, R: 6, Dev: 1, Lags: true, MaxLag: 3},
	}
	if !quick {
		rounds = append(rounds, cons.RoundCfg{W: cons.WV(1, 1, 1, 1), Epoch: 1, R: 8, Dev: 1, Lags: true, MaxLag: 5, Fork: true, ForkRounds: 3})
	}
	for _, r := range rounds {
		r := r
		cons.GenRounds(r, func(i int) bool { return c.Mine(i) && !c.OutOfBudget() }, func(d *lref.DAG, desc string) {
			checkDAG(c, d, "F-round "+desc, nextCfg())
		})
	}
	// a sleeping validator returning with stale knowledge while the first election is split (frame-jumping
	// roots whose intermediate slots matter), and the hand-written corpus
	sleepers := []cons.SleeperCfg{{W: cons.WV(1, 1, 1, 1), Epoch: 1, MinSleep: 2, MaxSleep: 4, Tail: 4, DropInFirstRound: true, Rots: 2}}
	if !quick {
		sleepers = []cons.SleeperCfg{{W: cons.WV(1, 1, 1, 1), Epoch: 1, MinSleep: 2, MaxSleep: 4, Tail: 4, DropInFirstRound: true, Rots: 2},
			{W: cons.WV(1, 1, 1, 1), Epoch: 1, MinSleep: 3, MaxSleep: 5, Tail: 5, Forks: true, Rots: 1}}
	}
	for _, sl := range sleepers {
		cons.GenSleeper(sl, func(i int) bool { return c.Mine(i) && !c.OutOfBudget() }, func(d *lref.DAG, desc string) {
			c.Count("sleeper_family_dags", 1)
			checkDAG(c, d, "F-sleeper "+desc, nextCfg())
		})
	}
	cd, cn := cons.CorpusDAGs()
	for i, d := range cd {
		if c.Mine(1000003 + i) {
			checkDAG(c, d, cn[i], nextCfg())
		}
	}
	cons.ExploreEpochs(c, cons.Report{"restart": true, "epoch": true}, quick)
	c.Count("evaluations", c.Get("restarts"))
	c.Count("distinct_nontrivial", c.Get("restarts"))
	c.Set("exhaustive", !c.Capped())
	c.Finish()
}
