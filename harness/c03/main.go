// C03: cheater lists name exactly the visible forkers, in canonical order (graph-based monitor);
// the families include forkers holding >= 1/3 (checked on whatever blocks are still emitted).
package main

import (
	"verif/cons"
	"verif/core"
)

func main() {
	c := core.New("C03", "model_checking")
	c.Set("rule", "same lattice exploration as C01 with fork families extended to forkers of any weight and double forks; for every emitted block: cheaters == [v in canonical order | two different events of v with equal seq among the ancestors-or-self of the Atropos]")
	// quick tier: the (small) multi-epoch part first (see C01)
	epochs := func() { cons.ExploreEpochs(c, cons.Report{"cheaters": true}, true) }
	if c.Quick() {
		epochs()
	}
	cons.ExploreConsensus(c, cons.DefaultConsFamilies(c.Quick(), true).OnlyForks(), cons.Report{"cheaters": true})
	if !c.Quick() {
		epochs()
	}
	c.Finish()
}
