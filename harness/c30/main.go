// C30: events semaphore bounds, waits and times out correctly.
//
// The real utils/datasemaphore runs on the scheduler shims (mutex, condition variable, time).  Two
// explorations:
//
//	(a) every single-thread call sequence to a depth bound over a boundary alphabet of amounts
//	    (empty, fitting, exactly the capacity, exceeding in one component, amounts that wrap the
//	    32/64-bit counters) against a counter model, step by step;
//	(b) every 2-3 thread program of 1-2 calls per thread over a reduced alphabet, under every
//	    schedule within a deviation bound (preemptions, timers landing first) on virtual time.
//
// Oracles: (1) every complete history is linearizable w.r.t. the counter model (brute force),
// including "false only if exceeding / terminated / deadline reached"; (2) held amount <= capacity
// at every observation; (3) liveness on virtual time, evaluated whenever time is about to pass with
// every thread blocked, and at deadlock: no caller may sit in the condition wait while its request
// fits, after Terminate, with a request exceeding the capacity, or past its deadline.
package main

import (
	"fmt"
	"math"
	"strings"
	"time"

	"github.com/Fantom-foundation/lachesis-base/inter/dag"
	"github.com/Fantom-foundation/lachesis-base/inter/idx"
	"github.com/Fantom-foundation/lachesis-base/utils/datasemaphore"
	"verif/core"
	"verif/mc/lin"
	"verif/mc/sched"
)

var capacity = dag.Metric{Num: 2, Size: 20}

var metrics = []dag.Metric{
	{Num: 1, Size: 5},                           // 0 fits twice
	{Num: 2, Size: 20},                          // 1 exactly the capacity
	{Num: 3, Size: 1},                           // 2 exceeds in Num
	{Num: math.MaxUint32, Size: 1},              // 3 wraps the 32-bit counter when something is held
	{Num: 0, Size: 0},                           // 4 empty
	{Num: 1, Size: 20},                          // 5 size = capacity
	{Num: 1, Size: 21},                          // 6 exceeds in Size
	{Num: math.MaxUint32, Size: math.MaxUint64}, // 7 wraps both
}

const ms = time.Millisecond

var timeouts = []time.Duration{10 * ms, 30 * ms, 0}

type opKind int

const (
	kAcq opKind = iota
	kTry
	kRel
	kTerm
	kProc
	kAvail
	kSleep
)

type op struct {
	K opKind
	M int           // metric index
	T time.Duration // timeout / sleep
}

func (o op) String() string {
	switch o.K {
	case kAcq:
		return fmt.Sprintf("Acquire(%v,%v)", metrics[o.M], o.T)
	case kTry:
		return fmt.Sprintf("TryAcquire(%v)", metrics[o.M])
	case kRel:
		return fmt.Sprintf("Release(%v)", metrics[o.M])
	case kTerm:
		return "Terminate()"
	case kProc:
		return "Processing()"
	case kAvail:
		return "Available()"
	}
	return fmt.Sprintf("Sleep(%v)", o.T)
}

// ---- counter model -------------------------------------------------------------------------

type mstate struct {
	num, size uint64 // held (num fits in 32 bits in every legal state)
	term      bool
}

func (s mstate) enc() string { return fmt.Sprintf("%d/%d/%v", s.num, s.size, s.term) }
func dec(e string) (s mstate) {
	fmt.Sscanf(e, "%d/%d/%v", &s.num, &s.size, &s.term)
	return
}

func exceeds(m dag.Metric) bool { return m.Num > capacity.Num || m.Size > capacity.Size }
func empty(m dag.Metric) bool   { return m.Num == 0 && m.Size == 0 }
func (s mstate) fits(m dag.Metric) bool {
	if exceeds(m) {
		return false
	}
	return uint64(m.Num) <= uint64(capacity.Num)-s.num && m.Size <= capacity.Size-s.size
}

type acqIn struct {
	M        dag.Metric
	Deadline time.Duration // virtual time of the deadline
}
type acqOut struct {
	OK  bool
	Ret time.Duration // virtual time of the return
}
type relOut struct{ Warned bool }

type semModel struct{}

func (semModel) Init() string { return mstate{}.enc() }
func (semModel) Step(e string, o lin.Op) []string {
	s := dec(e)
	grant := func(m dag.Metric) string {
		n := s
		n.num += uint64(m.Num)
		n.size += m.Size
		return n.enc()
	}
	switch o.Name {
	case "Try", "Acq":
		var m dag.Metric
		var ok, deadlinePassed bool
		if o.Name == "Try" {
			m, ok, deadlinePassed = o.In.(dag.Metric), o.Out.(bool), true
		} else {
			in, out := o.In.(acqIn), o.Out.(acqOut)
			m, ok, deadlinePassed = in.M, out.OK, out.Ret >= in.Deadline
		}
		if s.term {
			if empty(m) {
				return []string{e} // unspecified by the statement: either answer, nothing held
			}
			if ok {
				return nil // "after termination every non-empty request is refused"
			}
			return []string{e}
		}
		if ok {
			if !s.fits(m) {
				return nil
			}
			return []string{grant(m)}
		}
		// refused: legal if the request exceeds the capacity, or it does not fit now and (for
		// Acquire) its deadline has been reached by the time it returns
		if exceeds(m) || (!s.fits(m) && deadlinePassed) {
			return []string{e}
		}
		return nil
	case "Rel":
		m := o.In.(dag.Metric)
		over := s.num < uint64(m.Num) || s.size < m.Size
		if o.Out.(relOut).Warned != over {
			return nil
		}
		n := s
		if over {
			n.num, n.size = 0, 0
		} else {
			n.num -= uint64(m.Num)
			n.size -= m.Size
		}
		return []string{n.enc()}
	case "Term":
		n := s
		n.term = true
		return []string{n.enc()}
	case "Proc":
		got := o.Out.(dag.Metric)
		if uint64(got.Num) == s.num && got.Size == s.size {
			return []string{e}
		}
		return nil
	case "Avail":
		got := o.Out.(dag.Metric)
		if s.term { // capacity is gone; the statement says nothing about what is "available"
			return []string{e}
		}
		if uint64(got.Num) == uint64(capacity.Num)-s.num && got.Size == capacity.Size-s.size {
			return []string{e}
		}
		return nil
	}
	panic("unknown op " + o.Name)
}

// ---- one execution ---------------------------------------------------------------------------

type program struct {
	Init    []op   // executed by main before the threads start
	Threads [][]op // one slice per thread
}

func (p program) String() string {
	var parts []string
	f := func(ops []op) string {
		var s []string
		for _, o := range ops {
			s = append(s, o.String())
		}
		return strings.Join(s, "; ")
	}
	parts = append(parts, "init["+f(p.Init)+"]")
	for i, t := range p.Threads {
		parts = append(parts, fmt.Sprintf("T%d[%s]", i+1, f(t)))
	}
	return strings.Join(parts, " ")
}

type inflight struct {
	h        sched.Handle
	m        dag.Metric
	deadline time.Duration
	timeout  time.Duration
	active   bool
}

type execState struct {
	sem     *datasemaphore.DataSemaphore
	hist    []lin.Op
	clock   int
	warnBy  map[string]int // thread name -> warnings raised inside its current call
	flights []*inflight
	maxHeld dag.Metric
}

func (x *execState) tick() int { x.clock++; return x.clock }

// liveness is evaluated on the controller when time passes while everything waits, and at deadlock.
func (x *execState) liveness(newT time.Duration, final bool) string {
	proc, max, locked := x.sem.VerifPeek()
	if locked {
		return ""
	}
	for _, f := range x.flights {
		if !f.active || f.h.BlockedOn() != "Cond.Wait" {
			continue
		}
		terminated := max.Num == 0 && max.Size == 0
		switch {
		case exceeds(f.m):
			return fmt.Sprintf("exceeding-request-waits: Acquire(%v) exceeds the capacity %v but sits in the condition wait instead of being refused", f.m, capacity)
		case terminated && !empty(f.m):
			return fmt.Sprintf("blocked-after-terminate: Acquire(%v) is still waiting after Terminate() with nothing left to wake it", f.m)
		case !terminated && uint64(f.m.Num)+uint64(proc.Num) <= uint64(max.Num) && f.m.Size <= max.Size-proc.Size && proc.Size <= max.Size:
			return fmt.Sprintf("fitting-request-waits: Acquire(%v) waits although held=%v capacity=%v leaves room, and time passes (no wake-up reached it)", f.m, proc, max)
		case final || newT > f.deadline+f.timeout/2+ms:
			return fmt.Sprintf("timeout-ignored: Acquire(%v, timeout %v) still waits at virtual time %v, past its deadline %v, with no timer or thread left to wake it before then", f.m, f.timeout, newT, f.deadline)
		}
	}
	return ""
}

func (x *execState) do(thread int, o op) {
	name := sched.Self().Name()
	switch o.K {
	case kSleep:
		sleep(o.T)
	case kAcq:
		m := metrics[o.M]
		f := &inflight{h: sched.Self(), m: m, deadline: sched.Elapsed() + o.T, timeout: o.T, active: true}
		x.flights = append(x.flights, f)
		call := x.tick()
		ok := x.sem.Acquire(m, o.T)
		f.active = false
		ret := sched.Elapsed()
		x.hist = append(x.hist, lin.Op{Thread: thread, Call: call, Ret: x.tick(), Name: "Acq", In: acqIn{m, f.deadline}, Out: acqOut{ok, ret}})
		sched.Logf("T%d Acquire(%v,%v)=%v at %v", thread, m, o.T, ok, ret)
	case kTry:
		m := metrics[o.M]
		call := x.tick()
		ok := x.sem.TryAcquire(m)
		x.hist = append(x.hist, lin.Op{Thread: thread, Call: call, Ret: x.tick(), Name: "Try", In: m, Out: ok})
		sched.Logf("T%d TryAcquire(%v)=%v", thread, m, ok)
	case kRel:
		m := metrics[o.M]
		x.warnBy[name] = 0
		call := x.tick()
		x.sem.Release(m)
		w := x.warnBy[name]
		if w > 1 {
			sched.Fail("double-warning: one Release(%v) raised %d warnings", m, w)
		}
		x.hist = append(x.hist, lin.Op{Thread: thread, Call: call, Ret: x.tick(), Name: "Rel", In: m, Out: relOut{w == 1}})
		sched.Logf("T%d Release(%v) warned=%v", thread, m, w == 1)
	case kTerm:
		call := x.tick()
		x.sem.Terminate()
		x.hist = append(x.hist, lin.Op{Thread: thread, Call: call, Ret: x.tick(), Name: "Term"})
		sched.Logf("T%d Terminate", thread)
	case kProc:
		call := x.tick()
		got := x.sem.Processing()
		x.hist = append(x.hist, lin.Op{Thread: thread, Call: call, Ret: x.tick(), Name: "Proc", In: nil, Out: got})
		sched.Logf("T%d Processing=%v", thread, got)
		if got.Num > capacity.Num || got.Size > capacity.Size {
			sched.Fail("over-capacity: Processing() = %v exceeds the capacity %v", got, capacity)
		}
	case kAvail:
		call := x.tick()
		got := x.sem.Available()
		x.hist = append(x.hist, lin.Op{Thread: thread, Call: call, Ret: x.tick(), Name: "Avail", In: nil, Out: got})
		sched.Logf("T%d Available=%v", thread, got)
	}
	if proc, _, _ := x.sem.VerifPeek(); proc.Num > capacity.Num || proc.Size > capacity.Size {
		sched.Fail("over-capacity: held amount %v exceeds the capacity %v after %v", proc, capacity, o)
	}
}

// sleep on virtual time (harness side)
func sleep(d time.Duration) {
	woken := false
	sched.AddTimer(sched.Now().Add(d), func() { woken = true })
	sched.Block("harness sleep", func() bool { return woken })
}

var curExec *execState

func body(p program) func() {
	return func() {
		x := &execState{warnBy: map[string]int{}}
		curExec = x
		x.sem = datasemaphore.New(capacity, func(received, processing, releasing dag.Metric) {
			x.warnBy[sched.CurName()]++
		})
		for _, o := range p.Init {
			x.do(0, o)
		}
		var hs []sched.Handle
		for i, ops := range p.Threads {
			i, ops := i, ops
			hs = append(hs, sched.Spawn(fmt.Sprintf("T%d", i+1), func() {
				for _, o := range ops {
					x.do(i+1, o)
				}
			}))
		}
		sched.WaitAll(hs...)
		if ok, _ := lin.Check(semModel{}, x.hist); !ok {
			var hs []string
			for _, o := range x.hist {
				hs = append(hs, o.String())
			}
			sched.Fail("not-linearizable: no sequential order of this history agrees with the counter model: %s", strings.Join(hs, " | "))
		}
	}
}

func init() {
	sched.OnAdvance = func(old, new time.Time, idle bool) {
		if idle && curExec != nil {
			if msg := curExec.liveness(new.Sub(sched.Epoch0()), false); msg != "" {
				sched.FailFromController("%s", msg)
			}
		}
	}
	sched.OnDeadlock = func() string {
		if curExec != nil {
			return curExec.liveness(0, true)
		}
		return ""
	}
}

type replay struct {
	Program program
	Choices []int
	Bound   int
}

func sigOf(f string) string {
	if i := strings.Index(f, ":"); i > 0 && i < 40 {
		return f[:i]
	}
	return "failure"
}

func explore(c *core.Ctx, p program, bound int, maxSteps int) {
	e := &sched.Explorer{Bound: bound, MaxSteps: maxSteps, Body: body(p), VerifyEvery: 997, Stop: c.OutOfBudget}
	logs := map[string]bool{}
	e.Check = func(r sched.Result) bool {
		if r.Failure != "" {
			sig := sigOf(r.Failure)
			c.Violation(sig, replay{p, r.Choices, bound}, "%s\n  program: %s\n  schedule: %v\n  log: %s", r.Failure, p, r.Choices, strings.Join(r.Log, " | "))
			return false // one counterexample per program is enough
		}
		logs[strings.Join(r.Log, "|")] = true
		if r.Threads > 2 && hasSwitch(r) {
			c.Count("executions_with_context_switch", 1)
		}
		return true
	}
	e.Run()
	outcomes := len(logs)
	c.Count("evaluations", e.Execs)
	c.Count("distinct_nontrivial", int64(outcomes))
	c.Count("scheduling_points", e.Points)
	c.Count("programs", 1)
	if outcomes > 1 {
		c.Count("programs_with_several_outcomes", 1)
	}
	if !e.Complete {
		c.Count("programs_not_completed", 1)
	}
}

func hasSwitch(r sched.Result) bool {
	for _, ch := range r.Choices {
		if ch != 0 {
			return true
		}
	}
	return false
}

func seqAlphabet() []op {
	var a []op
	for m := range metrics {
		for _, t := range timeouts {
			a = append(a, op{kAcq, m, t})
		}
		a = append(a, op{kTry, m, 0}, op{kRel, m, 0})
	}
	return append(a, op{K: kTerm}, op{K: kProc}, op{K: kAvail})
}

func concAlphabet(full bool) []op {
	var a []op
	ms := []int{0, 1, 2, 3}
	for _, m := range ms {
		a = append(a, op{kAcq, m, 10 * ms_}, op{kAcq, m, 30 * ms_}, op{kTry, m, 0})
	}
	a = append(a, op{kRel, 0, 0}, op{kRel, 1, 0}, op{K: kTerm}, op{K: kProc}, op{K: kSleep, T: 20 * ms_})
	if full {
		a = append(a, op{kRel, 3, 0}, op{K: kAvail}, op{kAcq, 4, 10 * ms_})
	}
	return a
}

const ms_ = time.Millisecond

func threadProgs(a []op, maxLen int) [][]op {
	var out [][]op
	for _, o := range a {
		out = append(out, []op{o})
	}
	if maxLen >= 2 {
		for _, o1 := range a {
			for _, o2 := range a {
				out = append(out, []op{o1, o2})
			}
		}
	}
	return out
}

func main() {
	c := core.New("C30", "exploration")
	if c.Replay != "" {
		var rp replay
		if err := c.LoadReplay(&rp); err != nil {
			fmt.Println("cannot load replay:", err)
			c.Finish()
		}
		r := sched.Run(rp.Choices, 5000, true, body(rp.Program))
		fmt.Println("program:", rp.Program)
		for _, l := range r.Trace {
			fmt.Println("  ", l)
		}
		fmt.Println("log:", strings.Join(r.Log, " | "))
		if r.Failure != "" {
			c.Violation(sigOf(r.Failure), rp, "%s", r.Failure)
		}
		c.Finish()
	}
	quick := c.Quick()

	// (a) sequential sequences
	seqA := seqAlphabet()
	depth := 4
	if quick {
		depth = 3
	}
	var firsts [][]op
	for _, o1 := range seqA {
		for _, o2 := range seqA {
			firsts = append(firsts, []op{o1, o2})
		}
	}
	c.Parallel(len(firsts), func(i int) {
		var rec func(seq []op)
		rec = func(seq []op) {
			explore(c, program{Init: seq}, 0, 2000)
			c.Count("sequential_sequences", 1)
			if len(seq) < depth {
				for _, o := range seqA {
					rec(append(append([]op{}, seq...), o))
				}
			}
		}
		rec(firsts[i])
	})
	for _, o := range seqA {
		if c.Lead() {
			explore(c, program{Init: []op{o}}, 0, 2000)
		}
	}

	// (b) concurrent programs
	bound := 2
	a := concAlphabet(!quick)
	inits := [][]op{nil, {{kTry, 0, 0}}, {{kTry, 1, 0}}}
	var progs []program
	var waiters [][]op
	for _, o := range a {
		if o.K == kAcq {
			waiters = append(waiters, []op{o})
			for _, o2 := range a {
				if o2.K == kRel || o2.K == kAcq || o2.K == kProc {
					waiters = append(waiters, []op{o, o2})
				}
			}
		}
	}
	t2 := threadProgs(a, 2)
	t1 := threadProgs(a, 1)
	for _, in := range inits {
		for _, w := range waiters {
			if quick && len(w) > 1 {
				continue
			}
			for _, o := range t2 {
				progs = append(progs, program{Init: in, Threads: [][]op{w, o}})
			}
		}
		// three threads: two waiters and one single-call (quick) / two-call (thorough) actor
		for i, w1 := range waiters {
			if len(w1) > 1 {
				continue
			}
			for j, w2 := range waiters {
				if len(w2) > 1 || j < i {
					continue
				}
				third := t1
				if !quick {
					third = t2
				}
				for _, o := range third {
					progs = append(progs, program{Init: in, Threads: [][]op{w1, w2, o}})
				}
			}
		}
	}
	c.Set("concurrent_programs_total", len(progs))
	c.Parallel(len(progs), func(i int) {
		b := bound
		if quick && len(progs[i].Threads) > 2 {
			b = 1
		}
		explore(c, progs[i], b, 5000)
		c.Count("concurrent_programs", 1)
	})
	if c.Lead() {
		c.Set("deviation_bound_completed", bound)
		if quick {
			c.Set("deviation_bound_three_thread_programs", 1)
		}
		c.Set("capacity", capacity.String())
		c.Set("rule", "evaluations = complete executions (one schedule of one program, run to completion on virtual time); distinct_nontrivial = distinct (program, observation log) pairs")
		c.Sample(map[string]interface{}{"program": progs[len(progs)/2].String(), "what": "one of the concurrent programs; every schedule with <= 2 deviations (preemptions / timers landing first) is executed"})
		c.Sample(map[string]interface{}{"sequential_alphabet": fmt.Sprint(seqA), "depth": depth})
		c.Assume("virtual time: 'returns shortly after the timeout' is decided as 'does not sit in the condition wait while time passes beyond deadline + timeout/2 + 1ms with every thread blocked'")
		c.Assume("amount alphabet: " + fmt.Sprint(metrics) + ", capacity " + capacity.String())
		c.Assume("empty requests after Terminate and Available() after Terminate are unspecified by the statement: any answer accepted")
		c.Set("exhaustive", true)
	}
	finish(c)
}

func finish(c *core.Ctx) { c.Finish() }

var _ = idx.Event(0)
