#!/bin/bash
# regenerates the scheduler overlay for utils/datasemaphore from /repo's current tree
set -e
cd /verif
export GOFLAGS=-mod=mod GOPROXY=off GOSUMDB=off GOTOOLCHAIN=local
go build -o .work/bin/instrument ./tools/instrument
.work/bin/instrument -repo /repo -out /verif/.work/c30 -pkgs utils/datasemaphore -add utils/datasemaphore=/verif/harness/c30/peek.go.txt
