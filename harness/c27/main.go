// C27: caching producer reference-counts opens.
// All sequences of open/close/drop over names {a,b} to a depth bound, for both wrappers, over a
// counting backend; oracle: per-name refcount model.
package main

import (
	"errors"
	"fmt"

	"github.com/Fantom-foundation/lachesis-base/kvdb"
	"github.com/Fantom-foundation/lachesis-base/kvdb/cachedproducer"
	"github.com/Fantom-foundation/lachesis-base/kvdb/memorydb"
	"verif/core"
)

type inst struct {
	kvdb.Store
	name          string
	closes, drops int
	inDrop        func() // called from inside Drop (re-entrant use of the wrapper)
	failClose     bool   // the backend's Close reports an error (the close still counts)
}

var errClose = errors.New("backend: close failed")

func (s *inst) Close() error {
	s.closes++
	if s.failClose {
		s.failClose = false
		return errClose
	}
	return nil
}
func (s *inst) Drop() {
	s.drops++
	if f := s.inDrop; f != nil {
		s.inDrop = nil
		f()
	}
}

type backend struct {
	insts      map[string][]*inst
	failNext   bool
	duringOpen func() // runs inside the backend's OpenDB (the wrapper calls it outside its lock): a concurrent caller
}

var errOpen = errors.New("backend: open failed")

func (b *backend) OpenDB(name string) (kvdb.Store, error) {
	if f := b.duringOpen; f != nil {
		b.duringOpen = nil
		f()
	}
	if b.failNext {
		b.failNext = false
		return nil, errOpen
	}
	s := &inst{Store: memorydb.New(), name: name}
	b.insts[name] = append(b.insts[name], s)
	return s, nil
}
func (b *backend) Names() []string                             { return nil }
func (b *backend) NotFlushedSizeEst() int                      { return 0 }
func (b *backend) Flush(id []byte) error                       { return nil }
func (b *backend) Initialize([]string, []byte) ([]byte, error) { return nil, nil }
func (b *backend) Close() error                                { return nil }

var opNames = []string{"open(a)", "open(b)", "close(a)", "close(b)", "drop(a)", "drop(b)", "open-backend-fails(a)", "open-backend-fails(b)", "drop-with-reentrant-drop(a)", "drop-with-reentrant-drop(b)", "close-backend-errors(a)", "close-backend-errors(b)",
	"open-backend-fails-while-closed-handle-is-dropped(a)", "open-backend-fails-while-closed-handle-is-dropped(b)",
	"open-while-closed-handle-is-dropped(a)", "open-while-closed-handle-is-dropped(b)"}

const nOps = 16
const nOpsBase = 12 // the alphabet without the operations that act from inside the backend's OpenDB

type nameModel struct {
	ref   int
	opens int
	cur   kvdb.Store // latest store pointer returned for this name
	gen   int        // backend instances expected
	// dropped: Drop was called through cur since the last successful open of the name
	dropped bool
}

func run(c *core.Ctx, wrapper string, seq []int) (ok bool) {
	be := &backend{insts: map[string][]*inst{}}
	var p kvdb.DBProducer
	if wrapper == "WrapAll" {
		p = cachedproducer.WrapAll(be)
	} else {
		p = cachedproducer.Wrap(be)
	}
	ms := map[string]*nameModel{"a": {}, "b": {}}
	rep := func() map[string]interface{} {
		var s []string
		for _, o := range seq {
			s = append(s, opNames[o])
		}
		return map[string]interface{}{"wrapper": wrapper, "ops": s}
	}
	for step, o := range seq {
		name := []string{"a", "b"}[o%2]
		m := ms[name]
		var msg string
		pv := core.Catch(func() {
			switch o / 2 {
			case 0: // open
				st, err := p.OpenDB(name)
				if err != nil || st == nil {
					msg = fmt.Sprintf("OpenDB error %v", err)
					return
				}
				if m.ref > 0 {
					if st != m.cur {
						msg = "second open of an open name returned a different store"
					}
				} else {
					m.gen++
				}
				m.cur = st
				m.ref++
				m.opens++
				m.dropped = false
			case 1: // close
				if m.cur == nil {
					return
				}
				err := m.cur.Close()
				if m.ref == 0 {
					if err == nil {
						msg = "closing more often than opening was not reported as an error"
					}
					return
				}
				if err != nil {
					msg = fmt.Sprintf("Close of an open store failed: %v", err)
					return
				}
				m.ref--
			case 2: // drop
				if m.cur == nil {
					return
				}
				m.cur.Drop()
				m.dropped = true
			case 3: // open while the backend refuses: must fail and leave no trace
				if m.ref > 0 {
					return // served from the cache, the backend is not asked
				}
				be.failNext = true
				st, err := p.OpenDB(name)
				be.failNext = false
				if err == nil || st != nil {
					msg = "OpenDB succeeded although the backend failed"
				}
			case 5: // the last close reaches the backend, whose Close reports an error: the open is over all the same
				if m.cur == nil || m.ref != 1 {
					return
				}
				if is := be.insts[name]; len(is) > 0 {
					is[len(is)-1].failClose = true
				}
				err := m.cur.Close()
				if is := be.insts[name]; len(is) > 0 {
					is[len(is)-1].failClose = false
				}
				if err == nil {
					msg = "the backend's Close error was swallowed"
					return
				}
				m.ref--
			case 6, 7: // while the backend opens the database (6: and then fails), the previous, fully closed handle is dropped
				// (only a handle that was not dropped yet: dropping an already dropped, fully closed handle a second time
				// while the name is being re-opened is use of a stale handle, outside the property - see DESIGN §12)
				if m.cur == nil || m.ref != 0 || m.dropped {
					return
				}
				h := m.cur
				m.dropped = true
				be.duringOpen = func() { h.Drop() }
				be.failNext = o/2 == 6
				st, err := p.OpenDB(name)
				be.failNext, be.duringOpen = false, nil
				if o/2 == 6 {
					if err == nil || st != nil {
						msg = "OpenDB succeeded although the backend failed"
					}
					return
				}
				if err != nil || st == nil {
					msg = fmt.Sprintf("OpenDB error %v", err)
					return
				}
				m.gen++
				m.cur = st
				m.ref++
				m.opens++
				m.dropped = false
			case 4: // drop, with a second Drop issued from inside the backend's Drop
				if m.cur == nil {
					return
				}
				if is := be.insts[name]; len(is) > 0 {
					h := m.cur
					is[len(is)-1].inDrop = func() { h.Drop() }
				}
				m.cur.Drop()
				m.dropped = true
				if is := be.insts[name]; len(is) > 0 {
					is[len(is)-1].inDrop = nil
				}
			}
		})
		if pv != nil {
			c.Violation(wrapper+"/panic", rep(), "%s: step %d %s panicked: %v", wrapper, step, opNames[o], pv)
			return false
		}
		if msg == "" {
			// backend accounting
			for n, nm := range ms {
				is := be.insts[n]
				if len(is) != nm.gen {
					msg = fmt.Sprintf("backend opened %q %d times, model %d", n, len(is), nm.gen)
				}
				drops := 0
				for i, in := range is {
					wantCloses := 1
					if i == len(is)-1 && nm.ref > 0 {
						wantCloses = 0
					}
					if in.closes != wantCloses {
						msg = fmt.Sprintf("backend instance #%d of %q closed %d times, want %d (refcount %d)", i, n, in.closes, wantCloses, nm.ref)
					}
					drops += in.drops
				}
				if drops > nm.opens {
					msg = fmt.Sprintf("backend Drop of %q ran %d times for %d opens", n, drops, nm.opens)
				}
			}
		}
		if msg != "" {
			c.Violation(wrapper+"/"+opNames[o][:len(opNames[o])-3], rep(), "%s after %v (step %d): %s", wrapper, rep()["ops"], step, msg)
			return false
		}
	}
	return true
}

func main() {
	c := core.New("C27", "model_checking")
	depth := 6
	if !c.Quick() {
		depth = 8 // over the base alphabet; depth 7 over the full alphabet
	}
	c.Set("depth", depth)
	c.Set("rule", "all sequences over {open,close,drop,open-with-failing-backend,drop-with-reentrant-drop,close-with-failing-backend,open(-failing)-during-which-the-closed-handle-is-dropped} x {a,b} up to the depth bound, for Wrap and WrapAll; a handle is the latest store returned for the name (a closed-out handle is only re-used while the name is not open, i.e. to test over-closing)")
	// work items: (wrapper, first two ops)
	type item struct {
		w    string
		a, b int
	}
	var items []item
	for _, w := range []string{"Wrap", "WrapAll"} {
		for a := 0; a < nOps; a++ {
			for b := 0; b < nOps; b++ {
				items = append(items, item{w, a, b})
			}
		}
	}
	c.Parallel(len(items), func(i int) {
		it := items[i]
		var n, states int64
		seq := []int{it.a, it.b}
		alpha, bound := nOps, depth
		var rec func()
		rec = func() {
			n++
			if !run(c, it.w, seq) {
				return // prefix already violates; extensions add nothing
			}
			states++
			if len(seq) == bound {
				return
			}
			for o := 0; o < alpha; o++ {
				seq = append(seq, o)
				rec()
				seq = seq[:len(seq)-1]
			}
		}
		if c.Quick() {
			rec()
		} else {
			if it.a < nOpsBase && it.b < nOpsBase {
				alpha, bound = nOpsBase, depth
				rec()
			}
			alpha, bound = nOps, depth-1
			rec()
		}
		if it.a == 0 && it.b == 0 {
			run(c, it.w, []int{it.a})
			n++
			states++
		}
		c.Count("transitions", n)
		c.Count("states", states)
		c.Count("traces_validated_against_impl", n)
	})
	c.Set("exhaustive", !c.Capped())
	c.Sample(map[string]interface{}{"wrapper": "WrapAll", "ops": []string{"open(a)", "open(a)", "close(a)", "drop(a)", "close(a)", "close(a)", "open(a)"}})
	c.Assume("a store pointer whose opens were all closed is not used again once the name has been re-opened (use-after-close of a stale handle is outside the property)")
	c.Finish()
}
