// C01: order-independent agreement on blocks.  Every parents-first order of every DAG of the bounded
// families is covered by exploring the lattice of downward-closed event sets on the real code: each
// set reached along two different paths must show the same complete observation (blocks, cheaters,
// decided frame, epoch state, roots, confirmation marks), and every valid event must be accepted.
// Multi-epoch runs with validator-set changes are explored by cons.ExploreEpochs.
package main

import (
	"verif/cons"
	"verif/core"
)

func main() {
	c := core.New("C01", "model_checking")
	c.Set("rule", "states = ideals (event sets) of each DAG, transitions = Process of one more event on a fresh instance after replaying a shortest path; a second path into an ideal with a different canonical observation is a violation; families as for C10 plus multi-epoch sealing at every frame with unchanged / re-weighted / shrunk / grown validator sets")
	// quick tier: the (small) multi-epoch part first, so that a wall-clock cap on a loaded machine cannot starve it;
	// thorough tier: the multi-epoch part is large and comes last (its quick version ran in the quick stage)
	epochs := func() {
		cons.ExploreEpochs(c, cons.Report{"accept": true, "order": true, "ref": true, "epoch": true}, true)
	}
	if c.Quick() {
		epochs()
	}
	cons.ExploreConsensus(c, cons.DefaultConsFamilies(c.Quick(), false), cons.Report{"accept": true, "order": true, "ref": true})
	if !c.Quick() {
		epochs()
	}
	c.Assume("valid event sets: forkers hold < 1/3 of the weight; events carry the frames Build would assign")
	c.Finish()
}
