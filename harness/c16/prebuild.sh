#!/bin/bash
set -e
cd /verif
export GOFLAGS=-mod=mod GOPROXY=off GOSUMDB=off GOTOOLCHAIN=local
go build -o .work/bin/instrument ./tools/instrument
.work/bin/instrument -repo /repo -out /verif/.work/c16 -pkgs gossip/itemsfetcher,utils/workers,utils/wlru -maprange 'gossip/itemsfetcher/fetcher.go=request,f.fetching'
