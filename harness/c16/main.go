// C16: the items fetcher asks the right peers and does not forget pending items.
//
// The real Fetcher (loop goroutine, worker, channels, select, timer, rand) runs on the controlled
// scheduler with virtual time.  A driver thread executes every script up to a length bound over
// {announce(peer,item), announce both items, received(item), interest on/off, suspend on/off,
// advance(arrive/8 | arrive | forget+)}; all schedules within the deviation bound (preemptions,
// select arms, rand choices, timers landing early) are explored.
//
// Monitors on the requester callbacks:
//
//	safety (every execution): a request names only items that this peer announced and that an earlier
//	  OnlyInterested call returned;
//	timing (executions in which time passed only while every thread was blocked, so that virtual time
//	  is a fair clock): no request for an item later than 2*arrive after it was reported received or
//	  reported not interesting, unless announced anew; every announced item that stays interesting
//	  and unreceived is requested within 3*arrive after its announcement or the end of the suspension,
//	  provided that moment is before the forget timeout of the announcement.
package main

import (
	"fmt"
	"os"
	"strings"
	"time"

	"github.com/Fantom-foundation/lachesis-base/gossip/itemsfetcher"
	"verif/core"
	"verif/mc/sched"
)

const (
	arrive = 80 * time.Millisecond
	slack  = 10 * time.Millisecond
	forget = 400 * time.Millisecond
)

type opKind int

const (
	oAnn opKind = iota
	oAnnBoth
	oRecv
	oIntOff
	oIntOn
	oSuspOn
	oSuspOff
	oAdvance
)

type op struct {
	K    opKind
	Peer string
	Item int
	D    time.Duration
}

func (o op) String() string {
	switch o.K {
	case oAnn:
		return fmt.Sprintf("announce(%s,%d)", o.Peer, o.Item)
	case oAnnBoth:
		return fmt.Sprintf("announce(%s,[1 2])", o.Peer)
	case oRecv:
		return fmt.Sprintf("received(%d)", o.Item)
	case oIntOff:
		return fmt.Sprintf("uninteresting(%d)", o.Item)
	case oIntOn:
		return fmt.Sprintf("interesting(%d)", o.Item)
	case oSuspOn:
		return "suspend"
	case oSuspOff:
		return "resume"
	}
	return fmt.Sprintf("advance(%v)", o.D)
}

type program struct {
	Script []op
	// Settle: the driver waits after every step until the fetcher has nothing left to do, so that the
	// fetcher consumes its inputs in script order (its two input queues are otherwise unordered with
	// respect to each other).  Without it only the safety monitor applies.
	Settle bool
	// TinyCache: HashLimit = 1, so that a second item evicts the first one from the announce cache
	TinyCache bool
	// RecvBurst: the receipt queue holds one batch (MaxQueuedBatches = 1) and the driver does not wait between
	// consecutive receipt reports, so that a report can find the queue full (it must then wait, not get lost);
	// both reports travel through the same queue, so the script order is still the consumption order
	RecvBurst bool
}

func (p program) String() string {
	var s []string
	for _, o := range p.Script {
		s = append(s, o.String())
	}
	mode := "settle-after-each-step"
	if !p.Settle {
		mode = "burst"
	}
	if p.TinyCache {
		mode += " hash-limit=1"
	}
	if p.RecvBurst {
		mode += " receipt-queue=1,no-wait-between-receipts"
	}
	return mode + " [" + strings.Join(s, " ") + "]"
}

type annRec struct {
	peer      string
	item      int
	at        time.Duration
	idx       int
	suspended bool
}

type mark struct {
	idx int
	at  time.Duration
}

type execState struct {
	unfair      bool // virtual time advanced while a program thread was runnable
	announcedBy map[string]map[int]bool
	reportedInt map[int]bool
	interesting map[int]bool
	suspended   bool
	anns        []annRec
	lastAnn     map[int]time.Duration
	recvAt      map[int]time.Duration // NotifyReceived called
	unintAt     map[int]time.Duration // first OnlyInterested call in the current uninteresting interval that dropped the item
	intOff      map[int][]mark
	intOn       map[int][]mark
	suspOff     []mark
	suspOn      []mark
	requests    map[int][]time.Duration
	idx         int
}

var cur *execState

func body(p program) func() {
	return func() {
		x := &execState{announcedBy: map[string]map[int]bool{"p": {}, "q": {}}, reportedInt: map[int]bool{}, interesting: map[int]bool{1: true, 2: true},
			lastAnn: map[int]time.Duration{}, recvAt: map[int]time.Duration{}, unintAt: map[int]time.Duration{}, intOff: map[int][]mark{}, intOn: map[int][]mark{}, requests: map[int][]time.Duration{}}
		cur = x
		hashLimit := 64
		if p.TinyCache {
			hashLimit = 1
		}
		queued := 4
		if p.RecvBurst {
			queued = 1
		}
		f := itemsfetcher.New(itemsfetcher.Config{ForgetTimeout: forget, ArriveTimeout: arrive, GatherSlack: slack, HashLimit: hashLimit, MaxBatch: 2, MaxParallelRequests: 1, MaxQueuedBatches: queued},
			itemsfetcher.Callback{
				OnlyInterested: func(ids []interface{}) []interface{} {
					var out []interface{}
					now := sched.Elapsed()
					for _, id := range ids {
						if x.interesting[id.(int)] {
							x.reportedInt[id.(int)] = true
							out = append(out, id)
						} else if _, seen := x.unintAt[id.(int)]; !seen {
							x.unintAt[id.(int)] = now
						}
					}
					return out
				},
				Suspend: func() bool { return x.suspended },
			})
		requester := func(peer string) itemsfetcher.ItemsRequesterFn {
			return func(ids []interface{}) error {
				now := sched.Elapsed()
				sched.Logf("request(%s,%v)@%v", peer, ids, now)
				for _, id := range ids {
					it := id.(int)
					if !x.announcedBy[peer][it] {
						sched.Fail("request-to-non-announcer: item %d requested from %s, which never announced it", it, peer)
					}
					if !x.reportedInt[it] {
						sched.Fail("request-before-interest: item %d requested although no OnlyInterested call has returned it", it)
					}
					x.requests[it] = append(x.requests[it], now)
					if !x.unfair && p.Settle {
						if t, ok := x.recvAt[it]; ok && now > t+2*arrive && x.lastAnn[it] < t {
							sched.Fail("request-after-received: item %d requested at %v, more than 2*arrive after it was reported received at %v and without a new announcement", it, now, t)
						}
						// reported not interesting at t, and it stayed uninteresting for more than 2*arrive
						if t, ok := x.unintAt[it]; ok && now > t+2*arrive && x.lastAnn[it] < t {
							off := x.intOff[it][len(x.intOff[it])-1].at
							stillOff := !x.interesting[it]
							var backOn time.Duration
							if !stillOff {
								backOn = x.intOn[it][len(x.intOn[it])-1].at
							}
							if stillOff || backOn > t+2*arrive {
								sched.Fail("request-after-uninteresting: item %d requested at %v; it was not interesting from %v (reported to the fetcher at %v) for more than 2*arrive and was not announced since", it, now, off, t)
							}
						}
					}
				}
				return nil
			}
		}
		f.Start()
		announce := func(peer string, items ...int) {
			now := sched.Elapsed()
			var ids []interface{}
			for _, it := range items {
				ids = append(ids, it)
				x.announcedBy[peer][it] = true
				x.anns = append(x.anns, annRec{peer, it, now, x.idx, x.suspended && x.interesting[it]})
				if !x.interesting[it] {
					x.anns = x.anns[:len(x.anns)-1] // filtered out by the interest callback: no obligation
				}
				x.lastAnn[it] = now
			}
			if err := f.NotifyAnnounces(peer, ids, sched.Now(), requester(peer)); err != nil {
				sched.Fail("api-error: NotifyAnnounces: %v", err)
			}
		}
		for si, o := range p.Script {
			x.idx++
			switch o.K {
			case oAnn:
				announce(o.Peer, o.Item)
			case oAnnBoth:
				announce(o.Peer, 1, 2)
			case oRecv:
				if _, ok := x.recvAt[o.Item]; !ok || x.lastAnn[o.Item] > x.recvAt[o.Item] {
					x.recvAt[o.Item] = sched.Elapsed()
				}
				if err := f.NotifyReceived([]interface{}{o.Item}); err != nil {
					sched.Fail("api-error: NotifyReceived: %v", err)
				}
			case oIntOff:
				if x.interesting[o.Item] {
					x.interesting[o.Item] = false
					x.intOff[o.Item] = append(x.intOff[o.Item], mark{x.idx, sched.Elapsed()})
					delete(x.unintAt, o.Item)
				}
			case oIntOn:
				if !x.interesting[o.Item] {
					x.interesting[o.Item] = true
					x.intOn[o.Item] = append(x.intOn[o.Item], mark{x.idx, sched.Elapsed()})
				}
			case oSuspOn:
				x.suspended = true
				x.suspOn = append(x.suspOn, mark{x.idx, sched.Elapsed()})
			case oSuspOff:
				x.suspended = false
				x.suspOff = append(x.suspOff, mark{x.idx, sched.Elapsed()})
			case oAdvance:
				sleep(o.D)
			}
			if p.Settle && !(p.RecvBurst && o.K == oRecv && si+1 < len(p.Script) && p.Script[si+1].K == oRecv) {
				sched.Quiesce()
			} else {
				sched.Point("driver step")
			}
		}
		sleep(3*arrive + slack)
		end := sched.Elapsed()
		if !x.unfair && p.Settle {
			for _, a := range x.anns {
				// start of the response window
				s := a.at
				if a.suspended {
					s = -1
					for _, m := range x.suspOff {
						if m.idx > a.idx {
							s = m.at
							break
						}
					}
					if s < 0 {
						continue // still suspended at the end
					}
				}
				d := s + 3*arrive
				if d > end || d >= a.at+forget {
					continue
				}
				ok := true
				for _, m := range x.suspOn { // suspended (again) inside the window: no claim
					if m.idx > a.idx && m.at <= d {
						ok = false
					}
				}
				for _, m := range x.intOff[a.item] { // must stay interesting
					if m.idx > a.idx && m.at <= d {
						ok = false
					}
				}
				if t, rec := x.recvAt[a.item]; rec && t <= d {
					ok = false
				}
				if p.TinyCache {
					// a one-entry cache: a later announcement (another item, or a second announcement of this one,
					// which weighs two) may legitimately evict this one; so may this very announcement if the item
					// is still cached from the announcement right before it
					for _, b := range x.anns {
						if b.idx > a.idx && b.at <= d {
							ok = false
						}
					}
					prev := -1
					for i, b := range x.anns {
						if b.idx < a.idx || (b.idx == a.idx && b.item != a.item) {
							prev = i
						}
					}
					if prev >= 0 && x.anns[prev].item == a.item {
						ok = false
					}
					for _, b := range x.anns {
						if b.idx == a.idx && b.item != a.item {
							ok = false // announced together with another item: one of them is evicted at once
						}
					}
				}
				if !ok {
					continue
				}
				got := false
				for _, t := range x.requests[a.item] {
					if t >= a.at && t <= d {
						got = true
					}
				}
				if !got {
					sig := "pending-item-not-requested"
					if a.suspended {
						sig = "announced-while-suspended-never-requested"
					}
					sched.Fail("%s: item %d announced by %s at %v (suspended=%v, window starts %v) stayed interesting and unreceived but was not requested by %v = window start + 3*arrive; requests for it: %v", sig, a.item, a.peer, a.at, a.suspended, s, d, x.requests[a.item])
				}
			}
		}
		f.Stop()
	}
}

func sleep(d time.Duration) {
	woken := false
	sched.AddTimer(sched.Now().Add(d), func() { woken = true })
	sched.Block("harness sleep", func() bool { return woken })
}

func init() {
	sched.OnAdvance = func(old, new time.Time, idle bool) {
		if !idle && cur != nil {
			cur.unfair = true
		}
	}
}

func sigOf(f string) string {
	if i := strings.Index(f, ":"); i > 0 && i < 60 {
		return f[:i]
	}
	return "failure"
}

type replay struct {
	Program program
	Choices []int
}

func alphabet(full bool) []op {
	a := []op{
		{K: oAnn, Peer: "p", Item: 1}, {K: oAnn, Peer: "q", Item: 1}, {K: oAnn, Peer: "p", Item: 2},
		{K: oRecv, Item: 1}, {K: oIntOff, Item: 1}, {K: oIntOn, Item: 1},
		{K: oSuspOn}, {K: oSuspOff},
		{K: oAdvance, D: arrive / 8}, {K: oAdvance, D: arrive + time.Millisecond}, {K: oAdvance, D: 2*arrive + slack}, {K: oAdvance, D: 4 * arrive},
	}
	if full {
		a = append(a, op{K: oAnnBoth, Peer: "q"}, op{K: oRecv, Item: 2}, op{K: oIntOff, Item: 2}, op{K: oAdvance, D: forget + arrive/8})
	}
	return a
}

func main() {
	c := core.New("C16", "exploration")
	if c.Replay != "" {
		var rp replay
		if err := c.LoadReplay(&rp); err != nil {
			fmt.Println(err)
			c.Finish()
		}
		fmt.Println(rp.Program)
		r := sched.Run(rp.Choices, 20000, true, body(rp.Program))
		for _, l := range r.Trace {
			fmt.Println("  ", l)
		}
		fmt.Println("log:", strings.Join(r.Log, " | "))
		if r.Failure != "" {
			c.Violation(sigOf(r.Failure), rp, "%s", r.Failure)
		}
		c.Finish()
	}
	quick := c.Quick()
	depth, bound := 5, 1
	if !quick {
		depth, bound = 5, 2
	}
	a := alphabet(!quick)
	var progs []program
	var gen func(cur []op)
	gen = func(cur []op) {
		if len(cur) > 0 {
			// scripts that never announce anything are vacuous
			for _, o := range cur {
				if o.K == oAnn || o.K == oAnnBoth {
					progs = append(progs, program{Script: append([]op{}, cur...), Settle: true})
					if len(cur) <= depth-1 {
						progs = append(progs, program{Script: append([]op{}, cur...)})
					}
					// cache overflow: scripts that announce two different items
					a1, a2 := false, false
					for _, q := range cur {
						a1 = a1 || ((q.K == oAnn && q.Item == 1) || q.K == oAnnBoth)
						a2 = a2 || ((q.K == oAnn && q.Item == 2) || q.K == oAnnBoth)
					}
					// One-entry announce cache (HashLimit=1): a second item evicts the first.  Only scripts in which no
					// item is announced twice in a row are used: with such a limit the unmodified fetcher evicts an
					// item by its own second announcement (the weight is the number of announcements), a degenerate
					// configuration in which no timing obligation can be stated.
					okTiny, last := a1 && a2, 0
					for _, q := range cur {
						if q.K == oAnnBoth {
							okTiny = false
						}
						if q.K == oAnn {
							if q.Item == last {
								okTiny = false
							}
							last = q.Item
						}
					}
					if okTiny {
						progs = append(progs, program{Script: append([]op{}, cur...), Settle: true, TinyCache: true})
					}
					for qi := 0; qi+1 < len(cur); qi++ {
						if cur[qi].K == oRecv && cur[qi+1].K == oRecv {
							progs = append(progs, program{Script: append([]op{}, cur...), Settle: true, RecvBurst: true})
							break
						}
					}
					break
				}
			}
		}
		if len(cur) == depth {
			return
		}
		for _, o := range a {
			if len(cur) > 0 && o.K == oAdvance && cur[len(cur)-1].K == oAdvance {
				continue
			}
			gen(append(cur, o))
		}
	}
	gen(nil)
	// receipts of two different items in a row against a one-batch receipt queue (the quick alphabet reports item 1
	// only): the second report may find the queue full and must still take effect
	for _, first := range []int{1, 2} {
		for _, pre := range [][]op{nil, {{K: oAdvance, D: arrive / 8}}, {{K: oAdvance, D: arrive + time.Millisecond}}} {
			for _, peer2 := range []string{"p", "q"} {
				sc := []op{{K: oAnn, Peer: "p", Item: 1}, {K: oAnn, Peer: peer2, Item: 2}}
				sc = append(sc, pre...)
				sc = append(sc, op{K: oRecv, Item: first}, op{K: oRecv, Item: 3 - first})
				progs = append(progs, program{Script: sc, Settle: true, RecvBurst: true})
			}
		}
	}
	if os.Getenv("VERIF_C16_ONLY") == "recvburst" { // development aid: only the receipt-burst programs
		var keep []program
		for _, p := range progs {
			if p.RecvBurst {
				keep = append(keep, p)
			}
		}
		progs = keep
	}
	c.Set("programs_total", len(progs))
	c.Parallel(len(progs), func(i int) {
		p := progs[i]
		b := bound
		if len(p.Script) >= 5 || (quick && len(p.Script) >= 4 && !p.Settle) {
			b = bound - 1
		}
		e := &sched.Explorer{Bound: b, MaxSteps: 20000, Body: body(p), VerifyEvery: 499, Stop: c.OutOfBudget}
		logs := map[string]bool{}
		e.Check = func(r sched.Result) bool {
			if r.Failure != "" {
				c.Violation(sigOf(r.Failure), replay{p, r.Choices}, "%s\n  script: %s\n  schedule: %v\n  log: %s", r.Failure, p, r.Choices, strings.Join(r.Log, " | "))
				return false
			}
			logs[strings.Join(r.Log, "|")] = true
			if cur != nil && cur.unfair {
				c.Count("executions_with_unfair_time", 1)
			}
			return true
		}
		e.Run()
		c.Count("evaluations", e.Execs)
		c.Count("scheduling_points", e.Points)
		c.Count("distinct_nontrivial", int64(len(logs)))
		c.Count("programs", 1)
		if len(logs) > 1 {
			c.Count("programs_with_several_outcomes", 1)
		}
	})
	if c.Lead() {
		c.Set("rule", "evaluations = complete executions (one schedule of one script on virtual time); distinct_nontrivial = distinct request logs per script")
		c.Set("script_depth", depth)
		c.Set("deviation_bound", bound)
		c.Sample(map[string]interface{}{"script": progs[len(progs)/2].String()})
		c.Assume("arrive=80ms, gather slack=10ms, forget=400ms on virtual time; 'shortly' = 2*arrive, 'small multiple' = 3*arrive")
		c.Assume("timing clauses are evaluated only in executions where virtual time advanced while all threads were blocked (a fair clock); safety clauses in all executions")
		c.Assume("'reported not interesting' = an OnlyInterested call, after the last announcement of the item, that was asked about it and did not return it")
		c.Set("exhaustive", true)
	}
	c.Finish()
}
