// C04: frame rule - processing and building agree with the specification.
// (a) Process side: at every ideal of every DAG (incl. DAGs with "lazy" events that claim less than
//
//	the maximal frame), every enabled candidate event is offered with every claimed frame in
//	0..max+2; accepted <=> the claim is allowed by the graph-based rule.
//
// (b) Build side: Build of every candidate at every ideal assigns the maximal allowed frame and the
//
//	built event is then accepted by Process.
//
// (c) Build history: speculative Build of one candidate at counter c, filler builds up to counter
//
//	c*256, Build of another candidate with the same Lamport time (the temporary-ID collision
//	pattern), then Process of the built event.
//
// (d) a lagging validator whose allowed frames reach more than 100 above its self-parent's frame.
package main

import (
	"fmt"

	"github.com/Fantom-foundation/lachesis-base/inter/dag/tdag"
	"github.com/Fantom-foundation/lachesis-base/inter/idx"
	"verif/cons"
	"verif/core"
	lref "verif/ref/lachesis"
)

func lazyVariants(d *lref.DAG) []*lref.DAG {
	out := []*lref.DAG{d}
	for i := range d.Events {
		max := d.Events[i].Frame
		for f := max - 1; f >= 1; f-- {
			if !d.AllowedFrame(i, f) {
				continue
			}
			nd := d.Clone()
			nd.Events[i].Frame = f
			for j := i + 1; j < len(nd.Events); j++ {
				nd.Events[j].Frame = nd.MaxAllowedFrame(j)
			}
			out = append(out, nd)
		}
	}
	return out
}

func checkDAG(c *core.Ctx, d *lref.DAG, desc string, cfg cons.Config, withHistory bool) {
	vals := cons.Validators(d)
	evs, _ := cons.Events(d)
	n := len(d.Events)
	type cand struct{ e int }
	_, edges, _ := cons.Lattice(d, 5000, c.OutOfBudget, func(path []int, e int, nm uint64) bool {
		replay := func(extra map[string]interface{}) interface{} {
			m := map[string]interface{}{"dag": d.String(), "family": desc, "processed": path, "candidate": e}
			for k, v := range extra {
				m[k] = v
			}
			return m
		}
		fresh := func() *cons.Node {
			node := cons.NewNode(cfg, idx.Epoch(d.Epoch), vals)
			for _, x := range path {
				if err, crit := node.Process(evs[x]); err != nil || crit != "" {
					return nil
				}
			}
			return node
		}
		maxA := d.MaxAllowedFrame(e)
		if maxA != d.Events[e].Frame && d.AllowedFrame(e, d.Events[e].Frame) == false {
			panic("generator produced a disallowed claim")
		}
		// ---- (a) every claimed frame
		// all disallowed claims are offered to ONE instance in a row (each must be rejected and leave
		// no trace), every allowed claim gets a fresh instance (acceptance changes the state)
		var shared *cons.Node
		for claimed := 0; claimed <= maxA+2; claimed++ {
			var node *cons.Node
			if d.AllowedFrame(e, claimed) {
				node = fresh()
			} else {
				if shared == nil {
					shared = fresh()
				}
				node = shared
			}
			if node == nil {
				return false
			}
			ev := cons.MakeEvent(d, e, evs, claimed)
			err, crit := node.Process(ev)
			want := d.AllowedFrame(e, claimed)
			c.Count("process_claims", 1)
			if want {
				c.Count("process_claims_allowed", 1)
			}
			if crit != "" || (err == nil) != want {
				c.Violation(fmt.Sprintf("process/accepted=%v", err == nil), replay(map[string]interface{}{"claimed_frame": claimed}),
					"Process of e%d claiming frame %d returned (%v, %s); the frame rule allows=%v (self-parent frame %d, maximal allowed %d) [%v]", e, claimed, err, crit, want, spf(d, e), maxA, replay(nil))
				return false
			}
			if err != nil && claimed == maxA+2 {
				// the rejected events must leave no trace: the legal claim is accepted afterwards
				if err2, crit2 := node.Process(evs[e]); err2 != nil || crit2 != "" {
					c.Violation("process/legal-after-rejected", replay(map[string]interface{}{"claimed_frame": claimed}),
						"after rejecting e%d with frame %d, the same event with its legal frame %d was refused: %v %s [%v]", e, claimed, d.Events[e].Frame, err2, crit2, replay(nil))
					return false
				}
			}
		}
		// ---- (b) Build assigns the maximal allowed frame; the built event is accepted
		{
			node := fresh()
			me := cons.MakeEvent(d, e, evs, 0)
			err, crit := node.Build(me)
			c.Count("builds", 1)
			if err != nil || crit != "" || int(me.Frame()) != maxA {
				c.Violation("build/frame", replay(nil), "Build of e%d assigned frame %d (%v %s), maximal allowed is %d [%v]", e, me.Frame(), err, crit, maxA, replay(nil))
				return false
			}
			built := cons.MakeEvent(d, e, evs, int(me.Frame()))
			if err, crit := node.Process(built); err != nil || crit != "" {
				c.Violation("build/then-process", replay(nil), "the event built (frame %d) was refused by Process: %v %s [%v]", me.Frame(), err, crit, replay(nil))
				return false
			}
		}
		// ---- (c) Build histories with colliding temporary-ID counters
		if withHistory {
			for e1 := 0; e1 < n; e1++ {
				if e1 == e || nm&(1<<uint(e1)) != 0 || d.Events[e1].Lamport != d.Events[e].Lamport {
					continue
				}
				en := true
				for _, p := range d.Events[e1].Parents {
					en = en && (nm&^(1<<uint(e)))&(1<<uint(p)) != 0
				}
				if !en {
					continue
				}
				for _, cnt := range []int{1, 2} {
					node := fresh()
					filler := func() {
						f := &tdag.TestEvent{}
						f.SetEpoch(idx.Epoch(d.Epoch))
						f.SetCreator(idx.ValidatorID(d.IDs[0]))
						f.SetSeq(1)
						f.SetLamport(idx.Lamport(1000))
						node.Build(f)
					}
					for k := 1; k < cnt; k++ {
						filler()
					}
					m1 := cons.MakeEvent(d, e1, evs, 0)
					node.Build(m1) // counter = cnt
					for k := cnt + 1; k < cnt*256; k++ {
						filler()
					}
					m2 := cons.MakeEvent(d, e, evs, 0)
					err, crit := node.Build(m2) // counter = cnt*256
					c.Count("build_histories", 1)
					ok := err == nil && crit == "" && int(m2.Frame()) == maxA
					if ok {
						built := cons.MakeEvent(d, e, evs, int(m2.Frame()))
						err, crit = node.Process(built)
						ok = err == nil && crit == ""
					}
					if !ok {
						c.Violation("build/history-dependent", replay(map[string]interface{}{"speculative_build_of": e1, "at_build_counter": cnt, "then_build_at_counter": cnt * 256}),
							"after Build #%d of e%d and %d filler builds, Build #%d of e%d assigned frame %d (maximal allowed %d) / Process of the built event: %v %s [%v]",
							cnt, e1, cnt*256-cnt-1, cnt*256, e, m2.Frame(), maxA, err, crit, replay(nil))
						return false
					}
				}
			}
		}
		return true
	})
	c.Count("transitions", int64(edges))
	c.Count("evaluations", int64(edges))
	c.Count("dags", 1)
}

func spf(d *lref.DAG, e int) int {
	if sp := d.SelfParent(e); sp >= 0 {
		return d.Events[sp].Frame
	}
	return 0
}

func main() {
	c := core.New("C04", "exploration")
	quick := c.Quick()
	c.Set("rule", "candidates = every enabled event at every ideal of every DAG (F-all/F-fork, their lazy-frame variants, small round DAGs with lags); x every claimed frame 0..max+2 (Process), Build, and Build histories (speculative build at counter c in {1,2}, fillers to c*256, build of another same-Lamport candidate); non-trivial = (candidate, claim) pairs with claim within one of the allowed/disallowed boundary, counted as process_claims_allowed + rejected-adjacent")
	var fams []cons.GenCfg
	add := func(w cons.WeightVec, n, forks int, prev bool) {
		fams = append(fams, cons.GenCfg{Weights: w.W, IDs: w.IDs, Epoch: 1, N: n, ForkBudget: forks, PrevParents: prev, MaxLevelSet: 100000})
	}
	if quick {
		add(cons.WV(1, 1), 5, 0, false)
		add(cons.WV(3, 1), 5, 1, false)
		add(cons.WV(5, 1, 1), 4, 1, false)
		add(cons.WV(1, 1, 1, 1), 4, 1, false)
	} else {
		add(cons.WV(1, 1), 7, 0, true)
		add(cons.WV(1, 1), 6, 1, false)
		add(cons.WV(3, 1), 6, 1, true)
		add(cons.WV(5, 1, 1), 5, 1, false)
		add(cons.WV(1, 1, 1), 5, 1, false)
		add(cons.WV(1, 1, 1, 1), 6, 1, false)
	}
	cfgs := []cons.Config{cons.DefaultConfig()}
	item := 0
	for _, g := range fams {
		cons.GenAll(g, 2, func(d *lref.DAG) {
			for vi, v := range lazyVariants(d) {
				item++
				if !c.Mine(item) || c.OutOfBudget() {
					continue
				}
				if vi > 0 {
					c.Count("lazy_frame_dags", 1)
				}
				checkDAG(c, v, fmt.Sprintf("F-all/F-fork weights=%v N=%d forks<=%d lazy-variant=%d", g.Weights, g.N, g.ForkBudget, vi), cfgs[0], d.N() <= 5 && len(d.Weights) <= 3)
				if item%3001 == 1 {
					c.Sample(map[string]interface{}{"dag": v.String()})
				}
			}
		})
	}
	// round DAGs with lagging validators: candidates with multi-frame jumps
	rounds := []cons.RoundCfg{{W: cons.WV(3, 1), Epoch: 1, R: 5, Dev: 1, Lags: true, MaxLag: 3}, {W: cons.WV(1, 1, 1, 1), Epoch: 1, R: 5, Dev: 0, Fork: true, ForkRounds: 2}, {W: cons.WV(1, 1, 1, 1), Epoch: 1, R: 6, Dev: 1, Lags: true, MaxLag: 4}}
	if !quick {
		rounds = append(rounds, cons.RoundCfg{W: cons.WV(2, 1, 1, 1), Epoch: 1, R: 6, Dev: 2, Lags: true, MaxLag: 4, Fork: true, ForkRounds: 2})
	}
	for _, r := range rounds {
		r := r
		cons.GenRounds(r, func(i int) bool { return c.Mine(i) && !c.OutOfBudget() }, func(d *lref.DAG, desc string) {
			checkDAG(c, d, "F-round "+desc, cfgs[0], false)
		})
	}
	// ---- (d) towers: a lagging validator whose allowed frames reach beyond self-parent frame + 100
	towers := []int{99, 100, 101, 105}
	if quick {
		towers = []int{100, 104}
	}
	for ti, K := range towers {
		for variant := 0; variant < 2; variant++ {
			item++
			if !c.Mine(item) || c.OutOfBudget() {
				continue
			}
			_ = ti
			tower(c, K, variant)
		}
	}
	c.Count("distinct_nontrivial", c.Get("process_claims_allowed"))
	c.Set("exhaustive", !c.Capped())
	c.Finish()
}

// tower: validator A (weight 3 of [3,1], a quorum alone) builds K frames; B has b1 (and in variant 1
// b2 on top of a few of A's events) and then joins A's tip.  Reference: lref.Big (no 64-event limit).
func tower(c *core.Ctx, K int, variant int) {
	w := cons.WV(3, 1)
	d := &lref.DAG{Weights: w.W, IDs: w.IDs, Epoch: 1}
	add := func(creator int, parents ...int) int {
		ev := lref.Event{Creator: creator, Seq: 1}
		for _, i := range d.Events {
			_ = i
		}
		lam := 0
		own := -1
		for i := len(d.Events) - 1; i >= 0; i-- {
			if d.Events[i].Creator == creator {
				own = i
				break
			}
		}
		if own >= 0 {
			ev.Seq = d.Events[own].Seq + 1
			ev.Parents = append(ev.Parents, own)
			lam = d.Events[own].Lamport
		}
		for _, p := range parents {
			ev.Parents = append(ev.Parents, p)
			if d.Events[p].Lamport > lam {
				lam = d.Events[p].Lamport
			}
		}
		ev.Lamport = lam + 1
		d.Events = append(d.Events, ev)
		return len(d.Events) - 1
	}
	b1 := add(1)
	_ = b1
	var tip int
	for k := 0; k < K; k++ {
		tip = add(0)
		if variant == 1 && k == 2 {
			add(1, tip) // b2 at a low frame
		}
	}
	cand := add(1, tip)
	big := lref.NewBig(d)
	for i := range d.Events {
		d.Events[i].Frame = big.MaxAllowed(i)
	}
	vals := cons.Validators(d)
	evs := make([]*tdag.TestEvent, len(d.Events))
	for i := range d.Events {
		if i != cand {
			evs[i] = cons.MakeEvent(d, i, evs, d.Events[i].Frame)
		}
	}
	maxUncapped := 0
	for f := 1; f <= K+3; f++ {
		if big.Allowed(cand, f) {
			maxUncapped = f
		}
	}
	rep := func(claim int) interface{} {
		return map[string]interface{}{"scenario": fmt.Sprintf("tower: A(weight 3 of 4) builds %d events/frames, B joins with b(%s, a%d)", K, map[int]string{0: "b1", 1: "b2"}[variant], K), "claimed_frame": claim}
	}
	fresh := func() *cons.Node {
		node := cons.NewNode(cons.DefaultConfig(), 1, vals)
		for i := range d.Events {
			if i == cand {
				continue
			}
			if err, crit := node.Process(evs[i]); err != nil || crit != "" {
				c.Violation("tower/setup", rep(0), "tower event e%d refused: %v %s", i, err, crit)
				return nil
			}
		}
		return node
	}
	spf := d.Events[d.SelfParent(cand)].Frame
	claims := []int{spf - 1, spf, spf + 1, spf + 99, spf + 100, spf + 101, spf + 102, maxUncapped - 1, maxUncapped, maxUncapped + 1, maxUncapped + 2}
	done := map[int]bool{}
	for _, claimed := range claims {
		if claimed < 0 || done[claimed] {
			continue
		}
		done[claimed] = true
		node := fresh()
		if node == nil {
			return
		}
		ev := cons.MakeEvent(d, cand, evs, claimed)
		err, crit := node.Process(ev)
		want := big.Allowed(cand, claimed)
		c.Count("process_claims", 1)
		c.Count("tower_claims", 1)
		if want {
			c.Count("process_claims_allowed", 1)
		}
		if crit != "" || (err == nil) != want {
			c.Violation(fmt.Sprintf("process/tower/accepted=%v", err == nil), rep(claimed), "Process of the joining event claiming frame %d returned (%v, %s); the frame rule allows=%v (self-parent frame %d, highest allowed frame %d) [%v]", claimed, err, crit, want, spf, maxUncapped, rep(claimed))
			return
		}
	}
	node := fresh()
	if node == nil {
		return
	}
	me := cons.MakeEvent(d, cand, evs, 0)
	err, crit := node.Build(me)
	wantB := big.MaxAllowed(cand)
	if err != nil || crit != "" || int(me.Frame()) != wantB {
		c.Violation("build/tower", rep(0), "Build assigned frame %d (%v %s), highest allowed capped at self-parent+100 is %d", me.Frame(), err, crit, wantB)
		return
	}
	if err, crit := node.Process(cons.MakeEvent(d, cand, evs, wantB)); err != nil || crit != "" {
		c.Violation("build/tower-then-process", rep(wantB), "the built event (frame %d) was refused: %v %s", wantB, err, crit)
	}
	c.Count("dags", 1)
}
