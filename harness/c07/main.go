// C07: rejected and merely built events leave no trace.
// Differential exploration: for every DAG and every ideal S (reached by a shortest path), every
// injection (Build / failing Process with a wrong frame / both) of every candidate enabled at S is
// executed on the real instance; afterwards (i) every enabled event is processed and the complete
// observation (blocks, roots, decided frame, confirmation marks, raw epoch DB incl. the vector
// index) must equal the clean run's for the same event set, (ii) Build of every candidate assigns the
// same frame as in the clean run, (iii) the run is completed with all remaining events and the final
// observation must equal the clean final one.
package main

import (
	"fmt"
	"math/bits"
	"strings"

	"github.com/Fantom-foundation/lachesis-base/kvdb"

	"github.com/Fantom-foundation/lachesis-base/hash"
	"github.com/Fantom-foundation/lachesis-base/inter/idx"
	"verif/cons"
	"verif/core"
	"verif/ref/kv"
	lref "verif/ref/lachesis"
)

// firstDiff renders the neighbourhood of the first difference of two observation strings.
func firstDiff(a, b string) string {
	i := 0
	for i < len(a) && i < len(b) && a[i] == b[i] {
		i++
	}
	lo := i - 60
	if lo < 0 {
		lo = 0
	}
	cut := func(s string) string {
		hi := i + 60
		if hi > len(s) {
			hi = len(s)
		}
		if lo > len(s) {
			return ""
		}
		return s[lo:hi]
	}
	return fmt.Sprintf("clean ...%q... / got ...%q...", cut(a), cut(b))
}

func dbState(n *cons.Node) string {
	if n.Cfg.LibMemDB {
		dump := func(db kvdb.Store) string {
			var sb strings.Builder
			it := db.NewIterator(nil, nil)
			defer it.Release()
			for it.Next() {
				fmt.Fprintf(&sb, "%x=%x,", it.Key(), it.Value())
			}
			return sb.String()
		}
		s := "main{" + dump(n.LibMain) + "}"
		for e := idx.Epoch(1); e < 8; e++ {
			if db, ok := n.LibEpoch[e]; ok {
				s += fmt.Sprintf("epoch%d{%s}", e, dump(db))
			}
		}
		return s
	}
	s := "main{" + kv.Contents(n.MainDB.M) + "}"
	for e := idx.Epoch(1); e < 8; e++ {
		if db, ok := n.EpochDB[e]; ok {
			s += fmt.Sprintf("epoch%d{%s}", e, kv.Contents(db.M))
		}
	}
	return s
}

func checkDAG(c *core.Ctx, d *lref.DAG, desc string, cfg cons.Config, maxInj int) {
	vals := cons.Validators(d)
	evs, byID := cons.Events(d)
	name := func(id hash.Event) string {
		if i, ok := byID[id]; ok {
			return fmt.Sprintf("e%d", i)
		}
		return "?"
	}
	maxFrame := 0
	for _, e := range d.Events {
		if e.Frame > maxFrame {
			maxFrame = e.Frame
		}
	}
	n := d.N()
	pmask := make([]uint64, n)
	for i := range d.Events {
		for _, p := range d.Events[i].Parents {
			pmask[i] |= 1 << uint(p)
		}
	}
	observe := func(node *cons.Node, mask uint64) string {
		var ids []hash.Event
		for m := mask; m != 0; m &= m - 1 {
			ids = append(ids, evs[bits.TrailingZeros64(m)].ID())
		}
		return node.Observe(name, ids, maxFrame+1) + "|db=" + dbState(node)
	}
	// clean observations per ideal + clean build frames per (ideal, candidate)
	clean := map[uint64]string{}
	paths := map[uint64][]int{0: nil}
	order := []uint64{0}
	cons.Lattice(d, 3000, c.OutOfBudget, func(path []int, e int, nm uint64) bool {
		if _, ok := clean[nm]; ok {
			return true
		}
		node := cons.NewNode(cfg, idx.Epoch(d.Epoch), vals)
		for _, x := range append(append([]int{}, path...), e) {
			if err, crit := node.Process(evs[x]); err != nil || crit != "" {
				return false // C01/C10 report this
			}
		}
		clean[nm] = observe(node, nm)
		paths[nm] = append(append([]int{}, path...), e)
		order = append(order, nm)
		return true
	})
	{
		node := cons.NewNode(cfg, idx.Epoch(d.Epoch), vals)
		clean[0] = observe(node, 0)
	}
	full := d.Full()
	if _, ok := clean[full]; !ok {
		return
	}
	enabled := func(mask uint64) []int {
		var out []int
		for e := 0; e < n; e++ {
			if mask&(1<<uint(e)) == 0 && pmask[e]&^mask == 0 {
				out = append(out, e)
			}
		}
		return out
	}
	type inj struct {
		kind string
		x    int
	}
	kinds := []string{"build", "process+1", "process-1", "process+1;build", "build;build", "process+2"}
	for _, S := range order {
		if c.OutOfBudget() {
			return
		}
		cands := enabled(S)
		if len(cands) == 0 {
			continue
		}
		var injs []inj
		for _, x := range cands {
			for _, k := range kinds {
				injs = append(injs, inj{k, x})
			}
		}
		// clean Build frames at S
		cleanBuild := map[int]int{}
		{
			node := cons.NewNode(cfg, idx.Epoch(d.Epoch), vals)
			for _, x := range paths[S] {
				node.Process(evs[x])
			}
			for _, x := range cands {
				me := cons.MakeEvent(d, x, evs, 0)
				node2 := node // builds must not influence each other either; checked below through injections
				node2.Build(me)
				cleanBuild[x] = int(me.Frame())
			}
		}
		apply := func(node *cons.Node, in inj) (string, bool) {
			f := d.Events[in.x].Frame
			doProcess := func(claim int) (string, bool) {
				if claim < 0 || d.AllowedFrame(in.x, claim) {
					return "", false // not a failing Process: skip this injection
				}
				err, crit := node.Process(cons.MakeEvent(d, in.x, evs, claim))
				if err == nil || crit != "" {
					return fmt.Sprintf("Process with disallowed frame %d returned (%v,%s)", claim, err, crit), true
				}
				return "", true
			}
			doBuild := func() string {
				me := cons.MakeEvent(d, in.x, evs, 0)
				if err, crit := node.Build(me); err != nil || crit != "" {
					return fmt.Sprintf("Build failed: %v %s", err, crit)
				}
				return ""
			}
			switch in.kind {
			case "build":
				return doBuild(), true
			case "build;build":
				if m := doBuild(); m != "" {
					return m, true
				}
				return doBuild(), true
			case "process+1":
				return doProcess(f + 1)
			case "process+2":
				return doProcess(f + 2)
			case "process-1":
				return doProcess(f - 1)
			case "process+1;build":
				m, ok := doProcess(f + 1)
				if !ok || m != "" {
					return m, ok
				}
				return doBuild(), true
			}
			return "", false
		}
		// clean runs along exactly the same orders (with forks the raw index data legitimately depends on the order)
		cleanNext := map[int]string{}
		for _, e := range cands {
			node := cons.NewNode(cfg, idx.Epoch(d.Epoch), vals)
			for _, x := range paths[S] {
				node.Process(evs[x])
			}
			node.Process(evs[e])
			cleanNext[e] = observe(node, S|1<<uint(e))
		}
		cleanHere, cleanFinal := "", ""
		{
			node := cons.NewNode(cfg, idx.Epoch(d.Epoch), vals)
			for _, x := range paths[S] {
				node.Process(evs[x])
			}
			cleanHere = observe(node, S)
			for e := 0; e < n; e++ {
				if S&(1<<uint(e)) == 0 {
					node.Process(evs[e])
				}
			}
			cleanFinal = observe(node, full)
		}
		for _, in := range injs {
			replay := func(extra string) interface{} {
				return map[string]interface{}{"dag": d.String(), "family": desc, "processed": paths[S], "injection": fmt.Sprintf("%s of e%d", in.kind, in.x), "then": extra}
			}
			mk := func() (*cons.Node, bool) {
				node := cons.NewNode(cfg, idx.Epoch(d.Epoch), vals)
				for _, x := range paths[S] {
					node.Process(evs[x])
				}
				msg, ok := apply(node, in)
				if !ok {
					return nil, false
				}
				if msg != "" {
					c.Violation("inject/"+in.kind, replay(""), "%s [%v]", msg, replay(""))
					return nil, false
				}
				return node, true
			}
			node, ok := mk()
			if !ok {
				continue
			}
			c.Count("injections", 1)
			// state right after the injection
			if got := observe(node, S); got != cleanHere {
				c.Violation("trace/state-after-"+in.kind, replay("observe"), "state after the injection differs from the clean state: %s [%v]", firstDiff(cleanHere, got), replay(""))
				continue
			}
			// (ii) later builds assign the same frames
			bad := false
			for _, x := range cands {
				me := cons.MakeEvent(d, x, evs, 0)
				node.Build(me)
				if int(me.Frame()) != cleanBuild[x] {
					c.Violation("trace/build-after-"+in.kind, replay(fmt.Sprintf("Build(e%d)", x)), "after the injection Build(e%d) assigns frame %d, clean instance assigns %d [%v]", x, me.Frame(), cleanBuild[x], replay(""))
					bad = true
					break
				}
			}
			if bad {
				continue
			}
			// (i) every enabled event next
			for _, e := range cands {
				node, _ := mk()
				err, crit := node.Process(evs[e])
				nm := S | 1<<uint(e)
				if err != nil || crit != "" {
					c.Violation("trace/next-event-after-"+in.kind, replay(fmt.Sprintf("Process(e%d)", e)), "after the injection the valid event e%d is refused: %v %s [%v]", e, err, crit, replay(""))
					bad = true
					break
				}
				if got := observe(node, nm); got != cleanNext[e] {
					c.Violation("trace/next-state-after-"+in.kind, replay(fmt.Sprintf("Process(e%d)", e)), "after the injection and Process(e%d) the state differs from the clean run: %s [%v]", e, firstDiff(cleanNext[e], got), replay(""))
					bad = true
					break
				}
				c.Count("transitions", 1)
			}
			if bad {
				continue
			}
			// (iii) completion with all remaining events in index order
			node, _ = mk()
			mask := S
			for e := 0; e < n; e++ {
				if mask&(1<<uint(e)) != 0 {
					continue
				}
				if err, crit := node.Process(evs[e]); err != nil || crit != "" {
					c.Violation("trace/completion-after-"+in.kind, replay(fmt.Sprintf("completion, Process(e%d)", e)), "completion after the injection: e%d refused: %v %s [%v]", e, err, crit, replay(""))
					bad = true
					break
				}
				mask |= 1 << uint(e)
				c.Count("transitions", 1)
			}
			if !bad {
				if got := observe(node, full); got != cleanFinal {
					c.Violation("trace/final-state-after-"+in.kind, replay("completion"), "final state after the injection differs from the clean run: %s [%v]", firstDiff(cleanFinal, got), replay(""))
				}
			}
		}
	}
	c.Count("states", int64(len(order)))
	c.Count("dags", 1)
	c.Count("traces_validated_against_impl", c.Get("transitions"))
}

func main() {
	c := core.New("C07", "model_checking")
	quick := c.Quick()
	c.Set("rule", "states = ideals of each DAG; at each, every injection kind {Build, failing Process with frame+1/+2/-1, failing Process then Build, Build twice} of every enabled candidate, followed by every enabled event, Build of every candidate and the completion of the DAG; compared with the clean run's observation of the same event set (including the raw databases)")
	var fams []cons.GenCfg
	add := func(w cons.WeightVec, n, forks int) {
		fams = append(fams, cons.GenCfg{Weights: w.W, IDs: w.IDs, Epoch: 1, N: n, ForkBudget: forks, MaxLevelSet: 100000})
	}
	if quick {
		add(cons.WV(3, 1), 5, 1)
		add(cons.WV(1, 1), 5, 0)
		add(cons.WV(5, 1, 1), 4, 1)
	} else {
		add(cons.WV(3, 1), 6, 1)
		add(cons.WV(1, 1), 6, 1)
		add(cons.WV(5, 1, 1), 5, 1)
		add(cons.WV(1, 1, 1), 5, 1)
	}
	item := 0
	for _, g := range fams {
		cons.GenAll(g, 2, func(d *lref.DAG) {
			item++
			if !c.Mine(item) || c.OutOfBudget() {
				return
			}
			cfg := cons.DefaultConfig()
			cfg.LibMemDB = item%2 == 0 // alternately over the library's own memorydb (see cons.Config)
			checkDAG(c, d, fmt.Sprintf("F-all/F-fork weights=%v N=%d forks<=%d memorydb=%v", g.Weights, g.N, g.ForkBudget, cfg.LibMemDB), cfg, 1)
			if item%2001 == 1 {
				c.Sample(map[string]interface{}{"dag": d.String()})
			}
		})
	}
	rounds := []cons.RoundCfg{{W: cons.WV(3, 1), Epoch: 1, R: 5, Dev: 1, Lags: true, MaxLag: 3}, {W: cons.WV(1, 1, 1, 1), Epoch: 1, R: 5, Dev: 0, Fork: true, ForkRounds: 2}}
	if !quick {
		rounds = append(rounds, cons.RoundCfg{W: cons.WV(1, 1, 1, 1), Epoch: 1, R: 7, Dev: 1, Lags: true, MaxLag: 4})
	}
	for _, r := range rounds {
		r := r
		cons.GenRounds(r, func(i int) bool { return c.Mine(i) && !c.OutOfBudget() }, func(d *lref.DAG, desc string) {
			cfg := cons.DefaultConfig()
			cfg.LibMemDB = true
			checkDAG(c, d, "F-round (memorydb) "+desc, cfg, 1)
		})
	}
	c.Set("exhaustive", !c.Capped())
	c.Finish()
}
