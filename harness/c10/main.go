// C10: consensus output matches an independent reference implementation, on every ideal (= every
// parents-first order) of every DAG of the bounded families.
package main

import (
	"verif/cons"
	"verif/core"
)

func main() {
	c := core.New("C10", "model_checking")
	c.Set("rule", "families: F-all/F-fork (every DAG up to N events, dominant-validator weight vectors so that tiny DAGs decide frames), F-round (R synchronous rounds of 2-4 validators with every single/double deviation: dropped parent, same-round parent, no parents, skipped slot, validator lagging L rounds; one fork by a <1/3 validator at every slot); every ideal of every DAG's lattice is reached on the real IndexedLachesis by replay; accepted frames (events carry the reference's frames), registered roots per frame and the emitted blocks (Atropos, delivered event set = new ancestry of the Atropos, cheater list) are compared with ref/lachesis")
	cons.ExploreConsensus(c, cons.DefaultConsFamilies(c.Quick(), false), cons.Report{"accept": true, "ref": true, "content": true, "cheaters": true})
	c.Assume("trusted base: ref/lachesis (naive set-based implementation from the rules) and the DAG generators")
	c.Finish()
}
