// C33: the root registry returns exactly the registered roots.
// Bounded-depth exhaustive enumeration of sequences of AddRoot / GetFrameRoots / epoch switch on
// the real abft.Store (through the public Orderer.Reset path) for every cache configuration of the
// alphabet; oracle: a set of (frame, validator, id) per frame.
package main

import (
	"fmt"
	"sort"

	"github.com/Fantom-foundation/lachesis-base/abft"
	"github.com/Fantom-foundation/lachesis-base/hash"
	"github.com/Fantom-foundation/lachesis-base/inter/dag"
	"github.com/Fantom-foundation/lachesis-base/inter/idx"
	"github.com/Fantom-foundation/lachesis-base/inter/pos"
	"github.com/Fantom-foundation/lachesis-base/kvdb"
	"verif/core"
	"verif/ref/kv"
)

type opT struct {
	Kind   string // add get reset restart
	Ev     int
	Spf, F int
}

func (o opT) String() string {
	switch o.Kind {
	case "add":
		return fmt.Sprintf("AddRoot(spf=%d,ev%d@frame%d)", o.Spf, o.Ev, o.F)
	case "get":
		return fmt.Sprintf("GetFrameRoots(%d)", o.F)
	case "decide":
		return fmt.Sprintf("SetLastDecidedFrame(%d)", o.F)
	}
	return o.Kind
}

type evDef struct {
	creator idx.ValidatorID
	tail    byte
}

var evs = []evDef{{1, 0xA1}, {2, 0xA2}, {1, 0xB1}}

func mkEvent(d evDef, frame int) dag.Event {
	var me dag.MutableBaseEvent
	me.SetEpoch(1)
	me.SetCreator(d.creator)
	me.SetFrame(idx.Frame(frame))
	me.SetSeq(1)
	me.SetLamport(1)
	var t [24]byte
	t[0] = d.tail
	me.SetID(t)
	return &me.BaseEvent
}

type nullSource struct{}

func (nullSource) HasEvent(hash.Event) bool      { return false }
func (nullSource) GetEvent(hash.Event) dag.Event { return nil }

type nullIndex struct{}

func (nullIndex) ForklessCause(a, b hash.Event) bool { return false }

type sys struct {
	main    *kv.Store
	epochs  map[idx.Epoch]*kv.Store
	store   *abft.Store
	ord     *abft.Orderer
	cfg     abft.StoreConfig
	vals    *pos.Validators
	critErr error
}

func (s *sys) open() {
	s.store = abft.NewStore(s.main, func(e idx.Epoch) kvdb.Store {
		if s.epochs[e] == nil {
			db := kv.New()
			db.OnDrop = func() { delete(s.epochs, e) }
			s.epochs[e] = db
		}
		s.epochs[e].Closed = false
		return s.epochs[e]
	}, func(err error) { panic(err) }, s.cfg)
	s.ord = abft.NewOrderer(s.store, nullSource{}, nullIndex{}, func(err error) { panic(err) }, abft.LiteConfig())
}

func newSys(cfg abft.StoreConfig) *sys {
	s := &sys{main: kv.New(), epochs: map[idx.Epoch]*kv.Store{}, cfg: cfg}
	s.vals = pos.ArrayToValidators([]idx.ValidatorID{1, 2}, []pos.Weight{1, 1})
	s.open()
	if err := s.store.ApplyGenesis(&abft.Genesis{Epoch: 1, Validators: s.vals}); err != nil {
		panic(err)
	}
	if err := s.ord.Bootstrap(abft.OrdererCallbacks{}); err != nil {
		panic(err)
	}
	return s
}

type rootKey struct {
	frame int
	val   idx.ValidatorID
	id    hash.Event
}

func compare(got []interface{ String() string }, want map[rootKey]bool) string { return "" }

func main() {
	c := core.New("C33", "model_checking")
	depth := 4
	if !c.Quick() {
		depth = 6
	}
	c.Set("depth_bound", depth)
	var ops []opT
	for ei := range evs {
		for _, sf := range [][2]int{{0, 1}, {1, 2}, {0, 2}, {1, 3}} {
			ops = append(ops, opT{Kind: "add", Ev: ei, Spf: sf[0], F: sf[1]})
		}
	}
	for f := 1; f <= 3; f++ {
		ops = append(ops, opT{Kind: "get", F: f})
	}
	ops = append(ops, opT{Kind: "reset"}, opT{Kind: "restart"}, opT{Kind: "reset-same-epoch"})
	// the election moves on: roots of already decided frames are still registered (late, lagging validators)
	ops = append(ops, opT{Kind: "decide", F: 1}, opT{Kind: "decide", F: 2})
	c.Set("alphabet_ops", len(ops))
	type cfgT struct {
		num    uint
		frames int
	}
	var cfgs []cfgT
	for _, n := range []uint{0, 1, 2, 1000} {
		for _, f := range []int{0, 1, 2, 100} {
			cfgs = append(cfgs, cfgT{n, f})
		}
	}
	type item struct {
		cfg  cfgT
		a, b int
	}
	var items []item
	for _, cf := range cfgs {
		for a := range ops {
			for b := range ops {
				items = append(items, item{cf, a, b})
			}
		}
	}
	runSeq := func(cf cfgT, seq []int) bool {
		s := newSys(abft.StoreConfig{Cache: abft.StoreCacheConfig{RootsNum: cf.num, RootsFrames: cf.frames}})
		model := map[rootKey]bool{}
		epoch := idx.Epoch(1)
		rep := func(upto int) map[string]interface{} {
			var o []string
			for _, i := range seq[:upto] {
				o = append(o, ops[i].String())
			}
			return map[string]interface{}{"RootsNum": cf.num, "RootsFrames": cf.frames, "ops": o}
		}
		check := func(f int, step int, what string) bool {
			var msg string
			pv := core.Catch(func() {
				got := s.store.GetFrameRoots(idx.Frame(f))
				gotSet := map[rootKey]bool{}
				for _, r := range got {
					if int(r.Slot.Frame) != f {
						msg = fmt.Sprintf("%s GetFrameRoots(%d) returned a root with slot frame %d", what, f, r.Slot.Frame)
					}
					gotSet[rootKey{int(r.Slot.Frame), r.Slot.Validator, r.ID}] = true
				}
				n := 0
				for k := range model {
					if k.frame == f {
						n++
						if !gotSet[k] {
							msg = fmt.Sprintf("%s GetFrameRoots(%d) misses registered root (validator %d, id %s); got %d roots", what, f, k.val, k.id.String(), len(got))
						}
					}
				}
				if msg == "" && len(gotSet) != n {
					msg = fmt.Sprintf("%s GetFrameRoots(%d) returned %d distinct roots, %d are registered", what, f, len(gotSet), n)
				}
			})
			if pv != nil {
				msg = fmt.Sprintf("%s GetFrameRoots(%d) panicked: %v", what, f, pv)
			}
			if msg != "" {
				c.Violation("roots/"+what, rep(step), "cache(RootsNum=%d,RootsFrames=%d) after %v: %s", cf.num, cf.frames, rep(step)["ops"], msg)
				return false
			}
			return true
		}
		for i, oi := range seq {
			o := ops[oi]
			switch o.Kind {
			case "add":
				ev := mkEvent(evs[o.Ev], o.F)
				s.store.AddRoot(idx.Frame(o.Spf), ev)
				for f := o.Spf + 1; f <= o.F; f++ {
					model[rootKey{f, ev.Creator(), ev.ID()}] = true
				}
			case "get":
				if !check(o.F, i+1, "query") {
					return false
				}
			case "decide":
				s.store.SetLastDecidedState(&abft.LastDecidedState{LastDecidedFrame: idx.Frame(o.F)})
			case "reset":
				epoch++
				if err := s.ord.Reset(epoch, s.vals); err != nil {
					c.Violation("reset-error", rep(i+1), "Reset failed: %v", err)
					return false
				}
				model = map[rootKey]bool{}
			case "reset-same-epoch":
				// the epoch is abandoned and started again under the same number: it starts with no roots as well
				if err := s.ord.Reset(epoch, s.vals); err != nil {
					c.Violation("reset-error", rep(i+1), "Reset to the current epoch number failed: %v", err)
					return false
				}
				model = map[rootKey]bool{}
			case "restart":
				// a fresh Store/Orderer over the same databases (cold caches)
				s.open()
				// Bootstrap opens the epoch DB and then replays the election over the stored roots; the
				// election may reject this synthetic root set (the dummy index never forkless-causes),
				// which is irrelevant here: only the registry is under test.
				_ = s.ord.Bootstrap(abft.OrdererCallbacks{})
			}
		}
		// final observation: every frame, twice (second answer comes from whatever the first cached)
		for round := 0; round < 2; round++ {
			for _, f := range []int{3, 1, 2, 4} {
				if !check(f, len(seq), "final") {
					return false
				}
			}
		}
		return true
	}
	c.Parallel(len(items), func(ii int) {
		it := items[ii]
		var n, ok int64
		seq := []int{it.a, it.b}
		var rec func()
		rec = func() {
			n++
			if !runSeq(it.cfg, seq) {
				return
			}
			ok++
			if len(seq) == depth {
				return
			}
			for o := range ops {
				seq = append(seq, o)
				rec()
				seq = seq[:len(seq)-1]
			}
		}
		rec()
		if it.b == 0 {
			if runSeq(it.cfg, []int{it.a}) {
				ok++
			}
			n++
		}
		c.Count("transitions", n)
		c.Count("states", ok)
		c.Count("traces_validated_against_impl", n)
		if ii%997 == 0 {
			var o []string
			for _, i := range []int{it.a, it.b} {
				o = append(o, ops[i].String())
			}
			c.Sample(map[string]interface{}{"RootsNum": it.cfg.num, "RootsFrames": it.cfg.frames, "prefix": o})
		}
	})
	sort.Slice(cfgs, func(i, j int) bool { return cfgs[i].num < cfgs[j].num })
	c.Set("exhaustive", !c.Capped())
	c.Set("rule", "all sequences up to depth_bound over AddRoot (3 events incl. a second event of the same creator, 4 (self-parent frame, frame) spans incl. multi-frame jumps), GetFrameRoots(1..3), epoch switch via Orderer.Reset and restart (fresh Store over the same DBs), for 16 cache configurations; 'states' counts sequences (no state dedup: the cache is hidden state)")
	c.Assume("results are compared as sets of (frame, validator, id), as the statement says")
	c.Finish()
}
