// C20: quorum indexer medians and metrics follow their definition.
// For every DAG of the families (indexed completely in the real vecfc.Index) the QuorumIndexer is
// explored as an explicit state machine: state = (latest processed event per creator, latest self
// event); transitions = ProcessEvent(e, self) for every event and both flags; in every state the
// medians and the metric of every event are compared with the definition computed on graph clocks.
package main

import (
	"fmt"
	"github.com/Fantom-foundation/lachesis-base/hash"
	"sort"

	"github.com/Fantom-foundation/lachesis-base/emitter/ancestor"
	"github.com/Fantom-foundation/lachesis-base/inter/idx"
	"github.com/Fantom-foundation/lachesis-base/utils/adapters"
	"github.com/Fantom-foundation/lachesis-base/vecfc"
	"verif/cons"
	"verif/core"
	lref "verif/ref/lachesis"
)

const forkObs = 1<<31 - 2 // "a detected fork counts as the maximal observation"

func obs(d *lref.DAG, e, v int) uint64 {
	if e < 0 {
		return 0
	}
	fork, s := d.Clock(e, v)
	if fork {
		return forkObs
	}
	return uint64(s)
}

var diffs = []func(median, current, update idx.Event, v idx.Validator) ancestor.Metric{
	func(m, c, u idx.Event, v idx.Validator) ancestor.Metric {
		return ancestor.Metric(uint64(m)*1000003 + uint64(c)*1009 + uint64(u)*7 + uint64(v)*1000000007)
	},
	func(m, c, u idx.Event, v idx.Validator) ancestor.Metric {
		if u <= c || c >= m {
			return 0
		}
		if u > m {
			u = m
		}
		return ancestor.Metric(u - c)
	},
	func(m, c, u idx.Event, v idx.Validator) ancestor.Metric {
		return ancestor.Metric((uint64(m) ^ uint64(c)<<20 ^ uint64(u)<<40) * (uint64(v) + 1))
	},
}

func checkDAG(c *core.Ctx, d *lref.DAG, desc string) {
	vals := cons.Validators(d)
	evs, _ := cons.Events(d)
	node := cons.NewIdxNode(vals, vecfc.LiteConfig())
	for i := range evs {
		if crit := node.Add(evs[i], "plain"); crit != "" {
			return // C05 reports this
		}
	}
	order := d.CanonOrder() // position in the indexer's vectors -> validator
	nV := len(d.Weights)
	q := d.Quorum()
	type state struct {
		last []int // per validator (DAG position): latest processed event or -1
		self int   // latest event processed with selfEvent=true or -1
		path [][2]int
	}
	key := func(s state) string { return fmt.Sprint(s.last, s.self) }
	init := state{last: make([]int, nV), self: -1}
	for i := range init.last {
		init.last[i] = -1
	}
	seen := map[string]bool{key(init): true}
	queue := []state{init}
	var states, trans int64 = 1, 0
	for len(queue) > 0 && !c.OutOfBudget() {
		cur := queue[0]
		queue = queue[1:]
		for e := range evs {
			for self := 0; self < 2; self++ {
				trans++
				nxt := state{last: append([]int{}, cur.last...), self: cur.self, path: append(append([][2]int{}, cur.path...), [2]int{e, self})}
				nxt.last[d.Events[e].Creator] = e
				if self == 1 {
					nxt.self = e
				}
				for dj := 0; dj < 2*len(diffs); dj++ {
					di, askBetween := dj%len(diffs), dj < len(diffs)
					diff := diffs[di]
					if di > 0 && len(nxt.path) > 2 {
						continue // all three diff functions on short histories, the first on all
					}
					qi := ancestor.NewQuorumIndexer(vals, &adapters.VectorToDagIndexer{Index: node.Index}, diff)
					var allIDs hash.Events
					for _, e := range evs {
						allIDs = append(allIDs, e.ID())
					}
					for _, st := range nxt.path {
						qi.ProcessEvent(evs[st[0]], st[1] == 1)
						// variant 1: the emitter asks the search strategy after every event (this fills its metric cache);
						// variant 2: nothing is asked until the whole history is processed (lazy re-computation)
						if askBetween {
							qi.SearchStrategy().Choose(nil, allIDs)
						}
					}
					replay := func() interface{} {
						return map[string]interface{}{"dag": d.String(), "family": desc, "process_event_calls(event,self)": nxt.path, "diff_function": di, "getters_called_between_events": askBetween}
					}
					med := qi.GetGlobalMedianSeqs()
					wantMed := make([]uint64, nV)
					for pos, v := range order {
						var seqs []uint64
						for _, u := range order {
							seqs = append(seqs, obs(d, nxt.last[u], v))
						}
						// largest s such that validators holding >= quorum observed v at >= s
						cand := append([]uint64{}, seqs...)
						sort.Slice(cand, func(i, j int) bool { return cand[i] > cand[j] })
						var best uint64
						for _, s := range cand {
							var w uint64
							for k, u := range order {
								if seqs[k] >= s {
									w += uint64(d.Weights[u])
								}
							}
							if w >= q {
								best = s
								break
							}
						}
						wantMed[pos] = best
						if uint64(med[pos]) != best {
							c.Violation("median", replay(), "median for validator #%d (id %d) is %d, definition gives %d (observations %v, quorum %d) [%v]", v, d.IDs[v], med[pos], best, seqs, q, replay())
							return
						}
					}
					wantMetric := make([]ancestor.Metric, len(evs))
					for ce := range evs {
						for pos, v := range order {
							wantMetric[ce] += diff(idx.Event(wantMed[pos]), idx.Event(obs(d, nxt.self, v)), idx.Event(obs(d, ce, v)), idx.Validator(pos))
						}
					}
					// the (cached) search strategy must pick an option of maximal metric, whatever was asked before
					for mask := 1; mask < 1<<uint(len(evs)); mask++ {
						var opts hash.Events
						var idxs []int
						for ce := range evs {
							if mask&(1<<uint(ce)) != 0 {
								opts = append(opts, evs[ce].ID())
								idxs = append(idxs, ce)
							}
						}
						pick := -1
						if pv := core.Catch(func() { pick = qi.SearchStrategy().Choose(nil, opts) }); pv != nil {
							c.Violation("strategy-panic", replay(), "SearchStrategy().Choose panicked: %v [%v]", pv, replay())
							return
						}
						best := wantMetric[idxs[0]]
						for _, ce := range idxs {
							if wantMetric[ce] > best {
								best = wantMetric[ce]
							}
						}
						c.Count("strategy_choices_checked", 1)
						if pick < 0 || pick >= len(opts) || wantMetric[idxs[pick]] != best {
							c.Violation("strategy-not-maximal", replay(), "SearchStrategy().Choose over options %v picked e%d with metric %d, the maximal metric among the options is %d [%v]", idxs, idxs[pick], wantMetric[idxs[pick]], best, replay())
							return
						}
					}
					for ce := range evs {
						var want ancestor.Metric
						for pos, v := range order {
							want += diff(idx.Event(wantMed[pos]), idx.Event(obs(d, nxt.self, v)), idx.Event(obs(d, ce, v)), idx.Validator(pos))
						}
						if got := qi.GetMetricOf(evs[ce].ID()); got != want {
							c.Violation("metric", replay(), "metric of e%d is %d, definition gives %d [%v]", ce, got, want, replay())
							return
						}
						c.Count("metric_checks", 1)
					}
				}
				if k := key(nxt); !seen[k] {
					seen[k] = true
					states++
					queue = append(queue, nxt)
				}
			}
		}
	}
	c.Count("states", states)
	c.Count("transitions", trans)
	c.Count("traces_validated_against_impl", trans)
	c.Count("dags", 1)
}

func main() {
	c := core.New("C20", "model_checking")
	quick := c.Quick()
	c.Set("rule", "per DAG the full reachable graph of indexer states (latest processed event per creator x latest self event) under ProcessEvent(e, self) for every event and both flags; dedup key = that tuple (the indexer overwrites one matrix column per creator and the whole self vector per call, nothing accumulates)")
	var fams []cons.GenCfg
	add := func(w cons.WeightVec, n, forks int) {
		fams = append(fams, cons.GenCfg{Weights: w.W, IDs: w.IDs, Epoch: 1, N: n, ForkBudget: forks, MaxLevelSet: 50000})
	}
	if quick {
		add(cons.WV(1, 1), 4, 1)
		add(cons.WV(1, 2, 3), 4, 1)
		add(cons.WV(2, 1, 1, 1), 4, 0)
		// stake-sized weights: partial sums between 2/3 of the total and 2^32/3 (arithmetic on Weight must not wrap)
		add(cons.WV(600000000, 500000000, 450000000, 400000000), 4, 0)
	} else {
		add(cons.WV(1, 1), 5, 1)
		add(cons.WV(1, 2, 3), 5, 1)
		add(cons.WV(1, 1, 1), 5, 2)
		add(cons.WV(2, 1, 1, 1), 5, 1)
		add(cons.WV(1<<29, 1<<29, 1<<30-1), 4, 1)
		add(cons.WV(600000000, 500000000, 450000000, 400000000), 5, 0)
	}
	item := 0
	for _, g := range fams {
		cons.GenAll(g, 2, func(d *lref.DAG) {
			item++
			if !c.Mine(item) || c.OutOfBudget() {
				return
			}
			checkDAG(c, d, fmt.Sprintf("F-all/F-fork weights=%v N=%d forks<=%d", g.Weights, g.N, g.ForkBudget))
			if item%501 == 1 {
				c.Sample(map[string]interface{}{"dag": d.String()})
			}
		})
	}
	c.Set("exhaustive", !c.Capped())
	c.Assume("observations come from ref/lachesis graph clocks (validated against the index by C06)")
	c.Finish()
}
