// C32: index encodings are invertible and order preserving.
// Exhaustive enumeration: all 2^16 values (and all 2^32 ordered pairs), all 2^32 values of
// every 32-bit encoder (round trip + strict monotonicity on every adjacent pair, which by
// transitivity is order preservation on all pairs); 64-bit on a structured boundary alphabet.
package main

import (
	"bytes"
	"fmt"
	"sort"

	"github.com/Fantom-foundation/lachesis-base/common/bigendian"
	"github.com/Fantom-foundation/lachesis-base/common/littleendian"
	"github.com/Fantom-foundation/lachesis-base/hash"
	"github.com/Fantom-foundation/lachesis-base/inter/dag"
	"github.com/Fantom-foundation/lachesis-base/inter/idx"
	"verif/core"
)

type enc32 struct {
	name string
	enc  func(uint32) []byte
	dec  func([]byte) uint32
	big  bool
}

var encs32 = []enc32{
	{"bigendian.Uint32", bigendian.Uint32ToBytes, bigendian.BytesToUint32, true},
	{"idx.Epoch", func(v uint32) []byte { return idx.Epoch(v).Bytes() }, func(b []byte) uint32 { return uint32(idx.BytesToEpoch(b)) }, true},
	{"idx.Event", func(v uint32) []byte { return idx.Event(v).Bytes() }, func(b []byte) uint32 { return uint32(idx.BytesToEvent(b)) }, true},
	{"idx.Lamport", func(v uint32) []byte { return idx.Lamport(v).Bytes() }, func(b []byte) uint32 { return uint32(idx.BytesToLamport(b)) }, true},
	{"idx.Frame", func(v uint32) []byte { return idx.Frame(v).Bytes() }, func(b []byte) uint32 { return uint32(idx.BytesToFrame(b)) }, true},
	{"idx.Pack", func(v uint32) []byte { return idx.Pack(v).Bytes() }, func(b []byte) uint32 { return uint32(idx.BytesToPack(b)) }, true},
	{"idx.ValidatorID", func(v uint32) []byte { return idx.ValidatorID(v).Bytes() }, func(b []byte) uint32 { return uint32(idx.BytesToValidatorID(b)) }, true},
	{"idx.Validator", func(v uint32) []byte { return idx.Validator(v).Bytes() }, func(b []byte) uint32 { return uint32(idx.BytesToValidator(b)) }, true},
	{"littleendian.Uint32", littleendian.Uint32ToBytes, littleendian.BytesToUint32, false},
}

type enc64 struct {
	name string
	enc  func(uint64) []byte
	dec  func([]byte) uint64
	big  bool
}

var encs64 = []enc64{
	{"bigendian.Uint64", bigendian.Uint64ToBytes, bigendian.BytesToUint64, true},
	{"idx.Block", func(v uint64) []byte { return idx.Block(v).Bytes() }, func(b []byte) uint64 { return uint64(idx.BytesToBlock(b)) }, true},
	{"littleendian.Uint64", littleendian.Uint64ToBytes, littleendian.BytesToUint64, false},
}

func main() {
	c := core.New("C32", "exploration")
	c.Set("rule", "every value of each width is enumerated (16/32-bit: all; 64-bit: structured byte alphabet); a case is non-trivial when it is a distinct (encoder,value) whose encoding has at least two different bytes; order preservation is checked on every adjacent pair (v,v+1), which implies it for all pairs, and for 16-bit also on all 2^32 ordered pairs")

	// ---- returned slices are the caller's: scribbling over an encoding (e.g. to derive a range-end key) must not
	// change what the same value encodes to afterwards (no shared buffers / tables)
	for _, e := range encs32 {
		e := e
		vals := []uint32{0, 1, 2, 5, 6, 255, 256, 1023, 1024, 65535, 65536, 1<<31 - 1, 1 << 31, 1<<32 - 1}
		for v := uint32(0); v < 2048; v++ {
			vals = append(vals, v)
		}
		if c.Lead() {
			for _, v := range vals {
				b := e.enc(v)
				for i := range b {
					b[i] ^= 0xa5
				}
				b2 := e.enc(v)
				c.Count("evaluations", 1)
				if e.dec(b2) != v {
					c.Violation("encoding-aliases-shared-memory", []interface{}{e.name, v}, "%s: after the caller modified the slice returned for %d, encoding %d again decodes to %d", e.name, v, v, e.dec(b2))
					break
				}
				for i := range b2 {
					b2[i] ^= 0xa5 // restore whatever may be shared, so that later parts are not affected
				}
			}
		}
	}
	for _, e := range encs64 {
		e := e
		if c.Lead() {
			for v := uint64(0); v < 2048; v++ {
				b := e.enc(v)
				for i := range b {
					b[i] ^= 0xa5
				}
				b2 := e.enc(v)
				c.Count("evaluations", 1)
				if e.dec(b2) != v {
					c.Violation("encoding-aliases-shared-memory", []interface{}{e.name, v}, "%s: after the caller modified the slice returned for %d, encoding %d again decodes to %d", e.name, v, v, e.dec(b2))
					break
				}
				for i := range b2 {
					b2[i] ^= 0xa5
				}
			}
		}
	}

	// ---- the library's own sort helper for event IDs must agree with the byte-wise order, i.e. sort by
	// epoch, then Lamport time, then tail: every 3-element and 4-element multiset of IDs over a small
	// (epoch, lamport, tail) alphabet in every arrangement
	if c.Lead() {
		var ids []hash.Event
		for _, ep := range []uint32{1, 2, 0x01000000} {
			for _, lp := range []uint32{1, 2, 300} {
				for _, tl := range []byte{0, 9} {
					var me dag.MutableBaseEvent
					me.SetEpoch(idx.Epoch(ep))
					me.SetLamport(idx.Lamport(lp))
					var tail [24]byte
					tail[0] = tl
					me.SetID(tail)
					ids = append(ids, me.ID())
				}
			}
		}
		n := len(ids)
		less := func(a, b hash.Event) bool {
			if a.Epoch() != b.Epoch() {
				return a.Epoch() < b.Epoch()
			}
			if a.Lamport() != b.Lamport() {
				return a.Lamport() < b.Lamport()
			}
			return bytes.Compare(a.Bytes()[8:], b.Bytes()[8:]) < 0
		}
		bad := false
		for i := 0; i < n && !bad; i++ {
			for j := 0; j < n && !bad; j++ {
				for k := 0; k < n && !bad; k++ {
					list := hash.OrderedEvents{ids[i], ids[j], ids[k]}
					list.ByEpochAndLamport()
					c.Count("evaluations", 1)
					for x := 1; x < len(list); x++ {
						if less(list[x], list[x-1]) {
							c.Violation("sort-helper-order", []int{i, j, k}, "OrderedEvents.ByEpochAndLamport put (epoch %d, lamport %d) after (epoch %d, lamport %d)", list[x].Epoch(), list[x].Lamport(), list[x-1].Epoch(), list[x-1].Lamport())
							bad = true
							break
						}
					}
				}
			}
		}
	}

	// ---- 16 bit: all values, all pairs
	enc16 := make([][]byte, 65536)
	var nontriv int64
	lead := c.Lead()
	for v := 0; v < 65536; v++ {
		b := bigendian.Uint16ToBytes(uint16(v))
		enc16[v] = b
		if len(b) != 2 || bigendian.BytesToUint16(b) != uint16(v) {
			c.Violation("be16-roundtrip", v, "bigendian 16-bit round trip fails for %d", v)
		}
		l := littleendian.Uint16ToBytes(uint16(v))
		if len(l) != 2 || littleendian.BytesToUint16(l) != uint16(v) {
			c.Violation("le16-roundtrip", v, "littleendian 16-bit round trip fails for %d", v)
		} else if littleendian.BytesToUint16(l) != uint16(v) {
			c.Violation("le16-decode-modifies-input", v, "littleendian 16-bit: decoding the same bytes a second time gives another value for %d", v)
		}
		if b[0] != b[1] && lead {
			nontriv += 2
		}
		if lead {
			c.Count("evaluations", 2)
		}
	}
	c.Parallel(65536, func(a int) {
		for b := 0; b < 65536; b++ {
			cmp := bytes.Compare(enc16[a], enc16[b])
			want := 0
			if a < b {
				want = -1
			} else if a > b {
				want = 1
			}
			if cmp != want {
				c.Violation("be16-order", []int{a, b}, "bigendian 16-bit order: %d vs %d compare=%d", a, b, cmp)
				return
			}
		}
		c.Count("evaluations", 65536)
		c.Count("pairs16", 65536)
	})

	// ---- 32 bit
	full := len(encs32)
	if c.Quick() {
		full = 1 // bigendian.Uint32 over all 2^32; the rest over the stride alphabet below
	}
	const chunks = 4096
	const per = (1 << 32) / chunks
	for ei, e := range encs32 {
		e := e
		if ei < full || !e.big && !c.Quick() {
			done := c.Parallel(chunks, func(ch int) {
				lo := uint64(ch) * per
				var nt int64
				prev := e.enc(uint32(lo))
				for v := lo; v < lo+per; v++ {
					b := prev
					if len(b) != 4 || e.dec(b) != uint32(v) {
						c.Violation(e.name+"-roundtrip", v, "%s round trip fails for %d", e.name, v)
						return
					}
					if b[0] != b[1] || b[1] != b[2] || b[2] != b[3] {
						nt++
					}
					if v+1 < 1<<32 {
						nx := e.enc(uint32(v + 1))
						if e.big && bytes.Compare(b, nx) >= 0 {
							c.Violation(e.name+"-order", v, "%s: enc(%d) !< enc(%d)", e.name, v, v+1)
							return
						}
						prev = nx
					}
				}
				c.Count("distinct_nontrivial", nt)
				c.Count("evaluations", per)
			})
			_ = done
			c.Set("full32:"+e.name, !c.Capped())
		} else if !lead {
			c.Set("full32:"+e.name, false)
		} else {
			// stride alphabet: 2^12-windows around every power of two and the extremes
			vals := alphabet32()
			for _, v := range vals {
				b := e.enc(v)
				if len(b) != 4 || e.dec(b) != v {
					c.Violation(e.name+"-roundtrip", v, "%s round trip fails for %d", e.name, v)
				} else if e.dec(b) != v {
					c.Violation(e.name+"-decode-modifies-input", v, "%s: decoding the same bytes a second time gives %d instead of %d", e.name, e.dec(b), v)
				}
				if e.big && v != 1<<32-1 && bytes.Compare(b, e.enc(v+1)) >= 0 {
					c.Violation(e.name+"-order", v, "%s: enc(%d) !< enc(%d)", e.name, v, v+1)
				}
			}
			if e.big {
				encd := make([][]byte, len(vals))
				for i, v := range vals {
					encd[i] = e.enc(v)
				}
				for i := 1; i < len(vals); i++ {
					if bytes.Compare(encd[i-1], encd[i]) >= 0 {
						c.Violation(e.name+"-order", vals[i], "%s: order broken between %d and %d", e.name, vals[i-1], vals[i])
					}
				}
			}
			nontriv += int64(len(vals)) - 2
			c.Count("evaluations", int64(len(vals)))
			c.Set("full32:"+e.name, false)
		}
	}

	// ---- 64 bit: every value whose bytes are drawn from {00,01,7f,80,ff} + 1-bit / 2-bit patterns
	vals64 := alphabet64()
	for _, e := range encs64 {
		if !lead {
			break
		}
		encd := make([][]byte, len(vals64))
		for i, v := range vals64 {
			b := e.enc(v)
			encd[i] = b
			if len(b) != 8 || e.dec(b) != v {
				c.Violation(e.name+"-roundtrip", v, "%s round trip fails for %d", e.name, v)
			} else if e.dec(b) != v {
				c.Violation(e.name+"-decode-modifies-input", v, "%s: decoding the same bytes a second time gives %d instead of %d", e.name, e.dec(b), v)
			}
			if e.big && v != ^uint64(0) && bytes.Compare(b, e.enc(v+1)) >= 0 {
				c.Violation(e.name+"-order", v, "%s: enc(%d) !< enc(%d)", e.name, v, v+1)
			}
		}
		if e.big {
			for i := 1; i < len(vals64); i++ {
				if bytes.Compare(encd[i-1], encd[i]) >= 0 {
					c.Violation(e.name+"-order", vals64[i], "%s: order broken between %d and %d", e.name, vals64[i-1], vals64[i])
				}
			}
		}
		nontriv += int64(len(vals64)) - 2
		c.Count("evaluations", int64(len(vals64)))
	}
	c.Set("alphabet64_size", len(vals64))

	// ---- event IDs carry epoch and lamport; byte order = (epoch, lamport)
	a32 := idAlphabet()
	tails := [][24]byte{{}, {0xff, 0xff, 0xff}, {}}
	for i := range tails[2] {
		tails[2][i] = 0xff
	}
	type rec struct {
		ep, lp uint32
		id     hash.Event
	}
	// ID histories: every sequence (length <= 4) of {SetEpoch(e), SetLamport(l), SetID(t), Build(t)} over a small
	// alphabet on ONE mutable event; whenever an ID is produced (by SetID or Build) it must carry the epoch and
	// Lamport time that are current at that call, and a built event must report the same values as its ID.
	{
		type hop struct {
			k byte // 'e','l','i','b'
			v uint32
		}
		var alpha []hop
		for _, v := range []uint32{0, 3, 9, 0xfffffffe} {
			alpha = append(alpha, hop{'e', v}, hop{'l', v})
		}
		alpha = append(alpha, hop{'i', 0}, hop{'i', 2}, hop{'b', 0}, hop{'b', 2})
		var seqs [][]hop
		var gen func(cur []hop)
		gen = func(cur []hop) {
			if len(cur) > 0 {
				seqs = append(seqs, append([]hop{}, cur...))
			}
			if len(cur) == 4 {
				return
			}
			for _, o := range alpha {
				gen(append(cur, o))
			}
		}
		gen(nil)
		c.Parallel(len(seqs), func(i int) {
			var me dag.MutableBaseEvent
			var ep, lp uint32
			type builtRec struct {
				be     *dag.BaseEvent
				id     hash.Event
				ep, lp uint32
			}
			var built []builtRec
			for step, o := range seqs[i] {
				// events built earlier are immutable: later changes of the mutable event must not show in them
				for _, b := range built {
					if b.be.ID() != b.id || uint32(b.be.Epoch()) != b.ep || uint32(b.be.Lamport()) != b.lp {
						c.Violation("built-event-changed", fmt.Sprint(seqs[i]), "an event built earlier in history %v reports ID %s epoch/lamport %d/%d before step %d; it was built as %s %d/%d", seqs[i], b.be.ID().String(), b.be.Epoch(), b.be.Lamport(), step, b.id.String(), b.ep, b.lp)
						break
					}
				}
				switch o.k {
				case 'e':
					ep = o.v
					me.SetEpoch(idx.Epoch(o.v))
				case 'l':
					lp = o.v
					me.SetLamport(idx.Lamport(o.v))
				case 'i', 'b':
					var id hash.Event
					if o.k == 'i' {
						me.SetID(tails[o.v])
						id = me.ID()
					} else {
						be := me.Build(tails[o.v])
						id = be.ID()
						built = append(built, builtRec{be, id, ep, lp})
						if uint32(be.Epoch()) != ep || uint32(be.Lamport()) != lp {
							c.Violation("id-history-fields", fmt.Sprint(seqs[i]), "built event reports epoch/lamport %d/%d, set to %d/%d (history %v, step %d)", be.Epoch(), be.Lamport(), ep, lp, seqs[i], step)
						}
					}
					c.Count("evaluations", 1)
					c.Count("id_history_ids_checked", 1)
					if uint32(id.Epoch()) != ep || uint32(id.Lamport()) != lp || !bytes.Equal(id.Bytes()[8:], tails[o.v][:]) {
						c.Violation("id-history-carry", fmt.Sprint(seqs[i]), "ID produced at step %d of history %v carries epoch/lamport %d/%d, the event has %d/%d at that moment", step, seqs[i], id.Epoch(), id.Lamport(), ep, lp)
					}
				}
			}
			for _, b := range built {
				if b.be.ID() != b.id || uint32(b.be.Epoch()) != b.ep || uint32(b.be.Lamport()) != b.lp {
					c.Violation("built-event-changed", fmt.Sprint(seqs[i]), "an event built in history %v reports ID %s epoch/lamport %d/%d at the end; it was built as %s %d/%d", seqs[i], b.be.ID().String(), b.be.Epoch(), b.be.Lamport(), b.id.String(), b.ep, b.lp)
					break
				}
			}
		})
	}
	c.Parallel(len(a32), func(i int) {
		ep := a32[i]
		prevs := []rec{}
		for _, lp := range a32 {
			for ti, tail := range tails {
				var me dag.MutableBaseEvent
				me.SetEpoch(idx.Epoch(ep))
				me.SetLamport(idx.Lamport(lp))
				me.SetID(tail)
				id1 := me.ID()
				id2 := me.Build(tail).ID()
				if id1 != id2 {
					c.Violation("id-build-setid", []uint32{ep, lp}, "SetID and Build disagree for epoch=%d lamport=%d", ep, lp)
				}
				if uint32(id1.Epoch()) != ep || uint32(id1.Lamport()) != lp {
					c.Violation("id-carry", []uint32{ep, lp}, "ID epoch/lamport = %d/%d, built with %d/%d", id1.Epoch(), id1.Lamport(), ep, lp)
				}
				if !bytes.Equal(id1.Bytes()[8:], tail[:]) {
					c.Violation("id-tail", []uint32{ep, lp}, "ID tail differs")
				}
				if ti == 0 {
					prevs = append(prevs, rec{ep, lp, id1})
				}
				// byte order vs (epoch, lamport) against the same-epoch predecessors with the *largest* tail
				c.Count("evaluations", 1)
			}
		}
		// within one epoch: lamport ascending alphabet ⇒ ids with max tail of smaller lamport < ids with min tail of larger lamport
		for j := 1; j < len(a32); j++ {
			var lo, hi dag.MutableBaseEvent
			lo.SetEpoch(idx.Epoch(ep))
			lo.SetLamport(idx.Lamport(a32[j-1]))
			lo.SetID(tails[2])
			hi.SetEpoch(idx.Epoch(ep))
			hi.SetLamport(idx.Lamport(a32[j]))
			hi.SetID(tails[0])
			l, h := lo.ID(), hi.ID()
			if bytes.Compare(l.Bytes(), h.Bytes()) >= 0 {
				c.Violation("id-order-lamport", []uint32{ep, a32[j-1], a32[j]}, "ID order by lamport broken in epoch %d: %d vs %d", ep, a32[j-1], a32[j])
			}
		}
		if i > 0 { // epoch dominates lamport
			var lo, hi dag.MutableBaseEvent
			lo.SetEpoch(idx.Epoch(a32[i-1]))
			lo.SetLamport(idx.Lamport(1<<32 - 1))
			lo.SetID(tails[2])
			hi.SetEpoch(idx.Epoch(ep))
			hi.SetLamport(0)
			hi.SetID(tails[0])
			l, h := lo.ID(), hi.ID()
			if bytes.Compare(l.Bytes(), h.Bytes()) >= 0 {
				c.Violation("id-order-epoch", []uint32{a32[i-1], ep}, "ID order by epoch broken: %d vs %d", a32[i-1], ep)
			}
		}
	})
	if lead {
		nontriv += int64(len(a32) * len(a32))
	}
	c.Count("distinct_nontrivial", nontriv)
	c.Set("exhaustive", false)
	c.Set("exhaustive_note", "16-bit and every full32:<name>=true encoder are enumerated completely; 64-bit values and event IDs use the stated boundary alphabets")
	c.Sample(map[string]interface{}{"encoder": "idx.Frame", "value": 0x01ff00ff, "bytes": fmt.Sprintf("%x", idx.Frame(0x01ff00ff).Bytes())})
	c.Sample(map[string]interface{}{"encoder": "bigendian.Uint64", "value": vals64[len(vals64)/2], "bytes": fmt.Sprintf("%x", bigendian.Uint64ToBytes(vals64[len(vals64)/2]))})
	c.Assume("byte-wise comparison is bytes.Compare")
	c.Finish()
}

func alphabet32() []uint32 {
	m := map[uint32]bool{}
	add := func(center uint64) {
		for d := int64(-4096); d <= 4096; d++ {
			v := int64(center) + d
			if v >= 0 && v < 1<<32 {
				m[uint32(v)] = true
			}
		}
	}
	for k := 0; k <= 32; k++ {
		add(1 << uint(k))
		add(3 << uint(k))
	}
	add(0)
	for b := 0; b < 4; b++ { // every value with one arbitrary byte, others 00 / ff
		for x := 0; x < 256; x++ {
			m[uint32(x)<<(8*uint(b))] = true
			m[^(uint32(255)<<(8*uint(b)))|uint32(x)<<(8*uint(b))] = true
		}
	}
	out := make([]uint32, 0, len(m))
	for v := range m {
		out = append(out, v)
	}
	sort.Slice(out, func(i, j int) bool { return out[i] < out[j] })
	return out
}

func alphabet64() []uint64 {
	bs := []uint64{0x00, 0x01, 0x7f, 0x80, 0xff}
	m := map[uint64]bool{}
	var rec func(pos int, v uint64)
	rec = func(pos int, v uint64) {
		if pos == 8 {
			m[v] = true
			return
		}
		for _, b := range bs {
			rec(pos+1, v<<8|b)
		}
	}
	rec(0, 0)
	for i := 0; i < 64; i++ {
		m[1<<uint(i)] = true
		m[1<<uint(i)-1] = true
		for j := 0; j < i; j++ {
			m[1<<uint(i)|1<<uint(j)] = true
		}
	}
	out := make([]uint64, 0, len(m))
	for v := range m {
		out = append(out, v)
	}
	sort.Slice(out, func(i, j int) bool { return out[i] < out[j] })
	return out
}

func idAlphabet() []uint32 {
	m := map[uint32]bool{}
	for k := 0; k < 32; k++ {
		m[1<<uint(k)] = true
		m[1<<uint(k)-1] = true
		m[1<<uint(k)+1] = true
	}
	for b := 0; b < 4; b++ {
		for _, x := range []uint32{0x01, 0x7f, 0x80, 0xff, 0xfe} {
			m[x<<(8*uint(b))] = true
			m[^(uint32(255)<<(8*uint(b)))|x<<(8*uint(b))] = true
		}
	}
	m[0] = true
	m[1<<32-1] = true
	out := make([]uint32, 0, len(m))
	for v := range m {
		out = append(out, v)
	}
	sort.Slice(out, func(i, j int) bool { return out[i] < out[j] })
	return out
}
