#!/bin/bash
set -e
cd /verif
export GOFLAGS=-mod=mod GOPROXY=off GOSUMDB=off GOTOOLCHAIN=local
go build -o .work/bin/instrument ./tools/instrument
.work/bin/instrument -repo /repo -out /verif/.work/c25 -maprange 'kvdb/flushable/synced_pool.go=p.queuedDrops,p.wrappers,dbs;kvdb/flaggedproducer/producer.go=f.dbs'
