// C25: multi-database flushes are crash consistent.
//
// Engine E3 (crash-point enumeration).  The real write path (flushable.SyncedPool, and
// flaggedproducer.Producer) runs over an in-memory "disk" that logs every durable operation: database
// creation, put, delete, atomic batch write, database drop.  Histories over two databases
// {put, delete, 2-op batch, drop, flush} are enumerated to a length bound (plus a family with values
// large enough to split a flush into several batches); the iteration order of every map range in the
// flush / recovery code is owned through the vmap shim and permuted (deviation-bounded).  For every
// history, every permutation choice and EVERY prefix of the durable log the disk image is rebuilt, a
// fresh stack is started over it and Initialize(Names(), nil) is called.
//
// Oracle: the restart either returns an error that reports a dirty / not synced / non-initialized
// state, or a flush id F such that every surviving database holds exactly the contents the model had
// when flush F completed (the marker key aside), databases that did not exist at F being empty;
// F = nil stands for "before the first flush" (everything empty).  Panics are violations.
package main

import (
	"fmt"
	"sort"
	"strconv"
	"strings"

	"github.com/Fantom-foundation/lachesis-base/kvdb"
	"github.com/Fantom-foundation/lachesis-base/kvdb/flaggedproducer"
	"github.com/Fantom-foundation/lachesis-base/kvdb/flushable"
	"verif/core"
	"verif/mc/vmap"
	"verif/ref/kv"
)

var markKey = []byte("\xff\xfeflush")

// hiKey prefixes data keys that sort after the flush-ID key
const hiKey = "\xff\xffk"

// ---- logging disk -------------------------------------------------------------------------------

type disk struct {
	dbs map[string]map[string][]byte
	log *kv.Log
}

func newDisk() *disk { return &disk{dbs: map[string]map[string][]byte{}, log: &kv.Log{}} }

func (d *disk) OpenDB(name string) (kvdb.Store, error) {
	m, ok := d.dbs[name]
	if !ok {
		m = map[string][]byte{}
		d.dbs[name] = m
		d.log.Ops = append(d.log.Ops, kv.Op{DB: name, Kind: "create"})
	}
	s := &kv.Store{Name: name, M: m, Log: d.log}
	s.OnDrop = func() {
		if _, live := d.dbs[name]; live {
			delete(d.dbs, name)
			d.log.Ops = append(d.log.Ops, kv.Op{DB: name, Kind: "drop"})
		}
	}
	return s, nil
}

func (d *disk) Names() []string {
	var n []string
	for k := range d.dbs {
		n = append(n, k)
	}
	sort.Strings(n)
	return n
}

// image rebuilds the disk after the first n durable operations.
func image(ops []kv.Op, n int) *disk {
	d := newDisk()
	apply := func(m map[string][]byte, o kv.Op) {
		if o.Kind == "put" {
			m[o.Key] = []byte(o.Val)
		} else {
			delete(m, o.Key)
		}
	}
	for _, o := range ops[:n] {
		switch o.Kind {
		case "create":
			d.dbs[o.DB] = map[string][]byte{}
		case "drop":
			delete(d.dbs, o.DB)
		case "put", "del":
			if m, ok := d.dbs[o.DB]; ok {
				apply(m, o)
			}
		case "batch":
			if m, ok := d.dbs[o.DB]; ok {
				for _, b := range o.Batch {
					apply(m, b)
				}
			}
		}
	}
	d.log = &kv.Log{}
	return d
}

// ---- histories ------------------------------------------------------------------------------------

type hop struct {
	K  string // put | del | batch | drop | flush | bigput
	DB string
	A  string // key
	V  string // value
}

func (o hop) String() string {
	switch o.K {
	case "put":
		return fmt.Sprintf("put(%s,%s,%s)", o.DB, o.A, o.V)
	case "del":
		return fmt.Sprintf("del(%s,%s)", o.DB, o.A)
	case "batch":
		return fmt.Sprintf("batch(%s:put k1=%s,del k2)", o.DB, o.V)
	case "bigput":
		return fmt.Sprintf("bigput(%s,3x60KB around the flush-ID key)", o.DB)
	case "rbatch":
		return fmt.Sprintf("reused-batch(%s:reset,put k2=%s,write)", o.DB, o.V)
	case "drop":
		return "drop(" + o.DB + ")"
	case "open":
		return "open(" + o.DB + ")"
	}
	return "flush"
}

type stack interface {
	OpenDB(name string) (kvdb.Store, error)
	Flush(id []byte) error
	Initialize(names []string, id []byte) ([]byte, error)
}

func newStack(kind string, d *disk) stack {
	if kind == "pool" {
		return flushable.NewSyncedPool(d, markKey)
	}
	return flaggedproducer.Wrap(d, markKey)
}

type snapshot map[string]map[string]string // db -> contents

func big(c byte) string { return strings.Repeat(string(c), 60*1024) }

// model of the acknowledged state
type model struct {
	kind    string
	disk    map[string]map[string]string  // durable model contents (existing databases)
	buf     map[string]map[string]*string // pool: buffered writes per open database (nil value = delete)
	open    map[string]bool               // databases with a live handle in this session
	dropped map[string]bool               // pool: drop queued
	flushes map[string]snapshot
	nflush  int
}

func newModel(kind string) *model {
	return &model{kind: kind, disk: map[string]map[string]string{}, buf: map[string]map[string]*string{}, open: map[string]bool{}, dropped: map[string]bool{}, flushes: map[string]snapshot{}}
}

func (m *model) touch(db string) {
	m.open[db] = true
	if m.kind == "flagged" {
		if _, ok := m.disk[db]; !ok {
			m.disk[db] = map[string]string{}
		}
	} else if _, ok := m.buf[db]; !ok {
		m.buf[db] = map[string]*string{}
	}
}

func (m *model) write(db, k string, v *string) {
	m.touch(db)
	if m.kind == "flagged" {
		if v == nil {
			delete(m.disk[db], k)
		} else {
			m.disk[db][k] = *v
		}
		return
	}
	m.buf[db][k] = v
}

func (m *model) drop(db string) {
	if m.kind == "flagged" {
		delete(m.disk, db)
		delete(m.open, db)
		return
	}
	m.touch(db)
	m.dropped[db] = true
}

func (m *model) flush() string {
	m.nflush++
	id := fmt.Sprintf("F%d", m.nflush)
	if m.kind == "pool" {
		for db := range m.dropped {
			delete(m.disk, db)
			delete(m.buf, db)
			delete(m.open, db)
		}
		m.dropped = map[string]bool{}
		for db, b := range m.buf {
			if _, ok := m.disk[db]; !ok {
				m.disk[db] = map[string]string{}
			}
			for k, v := range b {
				if v == nil {
					delete(m.disk[db], k)
				} else {
					m.disk[db][k] = *v
				}
			}
			m.buf[db] = map[string]*string{}
		}
	}
	snap := snapshot{}
	for db, c := range m.disk {
		cc := map[string]string{}
		for k, v := range c {
			cc[k] = v
		}
		snap[db] = cc
	}
	m.flushes[id] = snap
	return id
}

type permChoice struct {
	Loop int
	Perm int
}

type scenario struct {
	Stack   string
	History []string
	Perms   []permChoice
	Crash   int
	Log     []string
	RecPerm bool
}

func setPerms(choices []permChoice) {
	vmap.ResetSeq()
	if len(choices) == 0 {
		vmap.Permute = nil
		return
	}
	vmap.Permute = func(loop, n int) []int {
		for _, c := range choices {
			if c.Loop == loop {
				return vmap.NthPerm(n, c.Perm%vmap.Fact(n))
			}
		}
		return nil
	}
}

func opsToStrings(ops []kv.Op) []string {
	var s []string
	for _, o := range ops {
		switch o.Kind {
		case "batch":
			var b []string
			for _, x := range o.Batch {
				b = append(b, fmt.Sprintf("%s %q", x.Kind, x.Key))
			}
			s = append(s, fmt.Sprintf("%s:batch[%s]", o.DB, strings.Join(b, ",")))
		case "put":
			v := o.Val
			if len(v) > 12 {
				v = fmt.Sprintf("<%d bytes>", len(v))
			}
			s = append(s, fmt.Sprintf("%s:put %q=%q", o.DB, o.Key, v))
		default:
			s = append(s, fmt.Sprintf("%s:%s %q", o.DB, o.Kind, o.Key))
		}
	}
	return s
}

// runHistory executes the history on a fresh stack; returns the durable log, the model and loop sizes.
func runHistory(kind string, h []hop, perms []permChoice) (ops []kv.Op, m *model, sizes []int, fail string) {
	d := newDisk()
	st := newStack(kind, d)
	m = newModel(kind)
	setPerms(perms)
	defer func() {
		sizes = append([]int{}, vmap.Sizes()...)
		vmap.Permute = nil
		if r := recover(); r != nil {
			fail = fmt.Sprintf("panic while executing the history: %v", r)
		}
		ops = d.log.Ops
	}()
	sp := func(s string) *string { return &s }
	reused := map[string]kvdb.Batch{} // one long-lived batch object per database (Write, Reset, refill, Write ...)
	reusedOf := map[string]kvdb.Store{}
	for _, o := range h {
		if o.K == "flush" {
			id := m.flush()
			if err := st.Flush([]byte(id)); err != nil {
				return nil, m, nil, fmt.Sprintf("Flush(%s) failed: %v", id, err)
			}
			continue
		}
		db, err := st.OpenDB(o.DB)
		if err != nil {
			return nil, m, nil, fmt.Sprintf("OpenDB(%s) failed: %v", o.DB, err)
		}
		switch o.K {
		case "open":
			m.touch(o.DB)
		case "put":
			err = db.Put([]byte(o.A), []byte(o.V))
			m.write(o.DB, o.A, sp(o.V))
		case "del":
			err = db.Delete([]byte(o.A))
			m.write(o.DB, o.A, nil)
		case "batch":
			b := db.NewBatch()
			b.Put([]byte("k1"), []byte(o.V))
			b.Delete([]byte("k2"))
			err = b.Write()
			m.write(o.DB, "k1", sp(o.V))
			m.write(o.DB, "k2", nil)
		case "rbatch":
			b := reused[o.DB]
			if b == nil || reusedOf[o.DB] != db {
				b = db.NewBatch() // a new store handle (after a drop) needs a new batch object
				reused[o.DB], reusedOf[o.DB] = b, db
			}
			b.Reset()
			b.Put([]byte("k2"), []byte(o.V))
			err = b.Write()
			m.write(o.DB, "k2", sp(o.V))
		case "bigput":
			// one key below the flush-ID key and two above it: the flush of this database is split into two batch
			// writes (IdealBatchSize = 100KB) with the flush-ID key's position inside the first one
			for i, k := range []string{"k1", hiKey + "3", hiKey + "4"} {
				if err == nil {
					err = db.Put([]byte(k), []byte(big("pqr"[i])))
				}
				m.write(o.DB, k, sp(big("pqr"[i])))
			}
		case "drop":
			db.Close()
			db.Drop()
			m.drop(o.DB)
		}
		if err != nil {
			return nil, m, nil, fmt.Sprintf("%v failed: %v", o, err)
		}
	}
	return
}

func short(v string) string {
	if len(v) > 12 {
		return fmt.Sprintf("<%d bytes %c..>", len(v), v[0])
	}
	return v
}

func contentsString(c map[string]string) string {
	var ks []string
	for k := range c {
		ks = append(ks, k)
	}
	sort.Strings(ks)
	var s []string
	for _, k := range ks {
		s = append(s, strings.Trim(strconv.QuoteToASCII(k), "\"")+"="+short(c[k]))
	}
	return "{" + strings.Join(s, ",") + "}"
}

// recover runs the restart over the image and judges it.
func judge(c *core.Ctx, kind string, h []hop, perms []permChoice, ops []kv.Op, m *model, crash int, recPerm bool) {
	img := image(ops, crash)
	sc := func() scenario {
		var hs []string
		for _, o := range h {
			hs = append(hs, o.String())
		}
		return scenario{Stack: kind, History: hs, Perms: perms, Crash: crash, Log: opsToStrings(ops[:crash]), RecPerm: recPerm}
	}
	vmap.ResetSeq()
	vmap.Permute = nil
	if recPerm {
		vmap.Permute = func(loop, n int) []int { // reverse every map iteration of the recovery
			p := make([]int, n)
			for i := range p {
				p[i] = n - 1 - i
			}
			return p
		}
	}
	var id []byte
	var err error
	pv := core.Catch(func() {
		st := newStack(kind, img)
		id, err = st.Initialize(img.Names(), nil)
	})
	vmap.Permute = nil
	c.Count("evaluations", 1)
	if pv != nil {
		c.Violation("restart-panics", sc(), "restart after crash point %d panics: %v\n  stack=%s history=%v\n  durable log so far: %v", crash, pv, kind, sc().History, sc().Log)
		return
	}
	if err != nil {
		msg := err.Error()
		if strings.Contains(msg, "dirty") || strings.Contains(msg, "not synced") || strings.Contains(msg, "non-initialized") {
			c.Count("images_reported_unsynced", 1)
			return
		}
		c.Violation("restart-other-error", sc(), "restart after crash point %d fails with an error that does not report a dirty/unsynced state: %v", crash, err)
		return
	}
	c.Count("images_accepted", 1)
	var snap snapshot
	if id == nil {
		snap = snapshot{}
	} else {
		var ok bool
		if len(id) > 0 && id[0] == flushable.CleanPrefix {
			id = id[1:] // the reported id is the stored mark: clean prefix + flush id
		}
		snap, ok = m.flushes[string(id)]
		if !ok {
			c.Violation("unknown-flush-id", sc(), "restart after crash point %d reports flush id %q, which no completed flush carries\n  stack=%s history=%v\n  durable log so far: %v", crash, id, kind, sc().History, sc().Log)
			return
		}
	}
	c.Distinct("distinct_nontrivial", fmt.Sprintf("%s|%v|%d", kind, sc().History, crash))
	for _, name := range img.Names() {
		got := map[string]string{}
		for k, v := range img.dbs[name] {
			if k != string(markKey) {
				got[k] = string(v)
			}
		}
		want := snap[name] // nil (empty) if the database did not exist at that flush
		if contentsString(got) != contentsString(want) {
			f := "nil (before the first flush)"
			if id != nil {
				f = string(id)
			}
			c.Violation("inconsistent-after-crash", sc(), "restart after crash point %d reports flush id %s without error, but database %q holds %s while at the completion of that flush it held %s\n  stack=%s history=%v perms=%v\n  durable log so far: %v",
				crash, f, name, contentsString(got), contentsString(want), kind, sc().History, perms, sc().Log)
			return
		}
	}
}

func explore(c *core.Ctx, kind string, h []hop, maxPermDev int) {
	ops, m, sizes, fail := runHistory(kind, h, nil)
	c.Count("histories", 1)
	if fail != "" {
		c.Violation("history-fails", scenario{Stack: kind, History: hstr(h)}, "%s (stack=%s history=%v)", fail, kind, hstr(h))
		return
	}
	all := func(ops []kv.Op, m *model, perms []permChoice) {
		for i := 0; i <= len(ops); i++ {
			judge(c, kind, h, perms, ops, m, i, false)
			if i > 0 && (ops[i-1].Kind == "put" || ops[i-1].Kind == "batch") && ops[i-1].Key == string(markKey) || i == len(ops) {
				judge(c, kind, h, perms, ops, m, i, true)
			}
		}
		c.Count("crash_points", int64(len(ops)+1))
	}
	all(ops, m, nil)
	if maxPermDev < 1 {
		return
	}
	var singles []permChoice
	for li, n := range sizes {
		if n >= 2 {
			for k := 1; k < vmap.Fact(n); k++ {
				singles = append(singles, permChoice{li, k})
			}
		}
	}
	for i, p1 := range singles {
		ops1, m1, _, fail := runHistory(kind, h, []permChoice{p1})
		if fail != "" {
			c.Violation("history-fails", scenario{Stack: kind, History: hstr(h), Perms: []permChoice{p1}}, "%s", fail)
			return
		}
		c.Count("map_order_variants", 1)
		all(ops1, m1, []permChoice{p1})
		if maxPermDev >= 2 {
			for _, p2 := range singles[i+1:] {
				if p2.Loop == p1.Loop {
					continue
				}
				ops2, m2, _, fail := runHistory(kind, h, []permChoice{p1, p2})
				if fail != "" {
					continue
				}
				c.Count("map_order_variants", 1)
				all(ops2, m2, []permChoice{p1, p2})
			}
		}
	}
}

func hstr(h []hop) []string {
	var s []string
	for _, o := range h {
		s = append(s, o.String())
	}
	return s
}

func main() {
	c := core.New("C25", "fault_enumeration")
	if c.Replay != "" {
		fmt.Println("replay: the artefact lists stack, history, map-order choices, crash point and the durable log prefix; the enumeration is deterministic, re-run the check to reproduce")
		c.Finish()
	}
	quick := c.Quick()
	var alpha []hop
	for _, db := range []string{"a", "b"} {
		alpha = append(alpha, hop{"put", db, "k1", "x"}, hop{"put", db, "k2", "y"}, hop{"del", db, "k1", ""}, hop{"batch", db, "", "z"}, hop{"drop", db, "", ""}, hop{"open", db, "", ""}, hop{"rbatch", db, "", "w"})
	}
	alpha = append(alpha, hop{K: "flush"})
	depth := 5
	if !quick {
		depth = 6
	}
	var hist [][]hop
	var gen func(cur []hop, flushes int)
	gen = func(cur []hop, flushes int) {
		if len(cur) > 0 && flushes > 0 {
			hist = append(hist, append([]hop{}, cur...))
		}
		if len(cur) == depth {
			return
		}
		for _, o := range alpha {
			f := flushes
			if o.K == "flush" {
				if len(cur) > 0 && cur[len(cur)-1].K == "flush" {
					continue // two flushes in a row add nothing new
				}
				f++
			}
			if len(cur)+1 == depth && f == 0 {
				continue
			}
			gen(append(cur, o), f)
		}
	}
	gen(nil, 0)
	// big-value family: a flush split into several batches
	bigs := [][]hop{
		{{K: "bigput", DB: "a"}, {K: "flush"}},
		{{K: "put", DB: "a", A: "k1", V: "x"}, {K: "flush"}, {K: "bigput", DB: "a"}, {K: "flush"}},
		{{K: "put", DB: "a", A: "k1", V: "x"}, {K: "put", DB: "b", A: "k1", V: "x"}, {K: "flush"}, {K: "bigput", DB: "a"}, {K: "put", DB: "b", A: "k2", V: "y"}, {K: "flush"}},
		{{K: "bigput", DB: "a"}, {K: "bigput", DB: "b"}, {K: "flush"}, {K: "del", DB: "a", A: "k1"}, {K: "flush"}},
	}
	hist = append(hist, bigs...)
	c.Set("histories_total", 2*len(hist))
	permDev := 1
	if !quick {
		permDev = 2
	}
	c.Parallel(2*len(hist), func(i int) {
		kind := "pool"
		if i%2 == 1 {
			kind = "flagged"
		}
		h := hist[i/2]
		pd := permDev
		if quick && len(h) >= 5 {
			pd = 0
		}
		explore(c, kind, h, pd)
	})
	if c.Lead() {
		c.Set("rule", "evaluations = (history, map-order choice, crash point, recovery order) tuples restarted and judged; distinct_nontrivial = distinct (stack, history, crash point) whose restart was accepted without error and compared with the model snapshot")
		c.Set("history_depth", depth)
		c.Set("map_order_deviation_bound", permDev)
		c.Sample(map[string]interface{}{"history": hstr(hist[len(hist)/2]), "stacks": []string{"pool", "flagged"}})
		c.Sample(map[string]interface{}{"history": hstr(bigs[2]), "note": "3 values of 60KB, one key sorting before and two after the flush-ID key: one flush of a database is split into two batch writes"})
		c.Assume("durable operations are atomic per put / delete / batch write / drop / create, and are never reordered (a crash keeps a prefix of the log)")
		c.Assume("'every database' in the statement is read as every database that survives on disk; a dropped database may be missing")
		c.Assume("writes issued to a database between its Drop() and the next flush are discarded by the pool together with the database")
		c.Set("exhaustive", true)
	}
	c.Finish()
}
