// C15: the event processor releases every event and balances its semaphore.
//
// The real Processor (checker worker, ordered inserter worker, channels, select), the real ordering
// buffer and the real events semaphore run on the controlled scheduler with virtual time.  Programs:
// thread A enqueues one or two batches, thread B enqueues a batch or calls Stop (or is absent);
// batches are lists over a 4-event chain (Lamport 1..4) in any order, with duplicates and events
// whose parents never arrive; ordered / unordered; parentless checks answered inline or from a
// separate thread in every completion order; a check failing at one event; highest known Lamport 0
// or 1 against a buffer limit of 2 events (so Lamport 4 is exactly one too far at 0 and admitted at
// 1); semaphore capacity ample or short (forcing a wait / ErrBusy through the timeout).  All schedules
// within the deviation bound are explored.
//
// Monitors: the semaphore never holds more than its capacity and never reports an over-release;
// every event whose handling began (first Exists / Released / HighestLamport for it) is released
// exactly once by the time Stop returns, no event twice; after Stop with every accepted batch done the
// semaphore holds zero; in an ordered batch handling begins in batch order; no Process for an event
// with Lamport > highest + limit + 1; Enqueue returns; Stop returns.
package main

import (
	"errors"
	"fmt"
	"strings"
	"time"

	"github.com/Fantom-foundation/lachesis-base/gossip/dagprocessor"
	"github.com/Fantom-foundation/lachesis-base/hash"
	"github.com/Fantom-foundation/lachesis-base/inter/dag"
	"github.com/Fantom-foundation/lachesis-base/inter/dag/tdag"
	"github.com/Fantom-foundation/lachesis-base/inter/idx"
	"github.com/Fantom-foundation/lachesis-base/utils/datasemaphore"
	"verif/core"
	"verif/mc/sched"
)

const nEvents = 5 // e0..e3 chain (Lamport 1..4), e4 = child of a parent that never arrives (Lamport 2)

func makeEvents() ([]*tdag.TestEvent, hash.Event) {
	evs := make([]*tdag.TestEvent, nEvents)
	mk := func(i int, lamport int, parents hash.Events) *tdag.TestEvent {
		e := &tdag.TestEvent{}
		e.SetEpoch(1)
		e.SetCreator(1)
		e.SetSeq(idx.Event(i + 1))
		e.SetLamport(idx.Lamport(lamport))
		e.SetParents(parents)
		var tail [24]byte
		tail[0] = byte(i + 1)
		e.SetID(tail)
		e.Name = fmt.Sprintf("e%d", i)
		return e
	}
	evs[0] = mk(0, 1, nil)
	for i := 1; i <= 3; i++ {
		evs[i] = mk(i, i+1, hash.Events{evs[i-1].ID()})
	}
	ghost := mk(9, 1, nil)
	evs[4] = mk(4, 2, hash.Events{ghost.ID()})
	return evs, ghost.ID()
}

type batch struct {
	Events  []int
	Ordered bool
}

func (b batch) String() string {
	o := "unordered"
	if b.Ordered {
		o = "ordered"
	}
	return fmt.Sprintf("%s%v", o, b.Events)
}

type program struct {
	A         []batch
	B         []batch // nil = thread absent
	BStop     bool    // thread B calls Stop instead
	Async     bool    // parentless checks complete on another thread...
	Perm      int     // ...in this permutation (index) of each batch's positions
	FailCheck int     // event whose parentless check fails (-1 none)
	FailProc  int     // event whose Process fails (-1 none)
	Highest   int     // HighestLamport()
	Tight     bool    // semaphore capacity fits only one 2-event batch
}

func (p program) String() string {
	b := "none"
	if p.BStop {
		b = "Stop"
	} else if p.B != nil {
		b = fmt.Sprint(p.B)
	}
	return fmt.Sprintf("A=%v B=%s asyncChecks=%v perm=%d failCheck=%d failProcess=%d highest=%d tightSemaphore=%v", p.A, b, p.Async, p.Perm, p.FailCheck, p.FailProc, p.Highest, p.Tight)
}

type copyT struct {
	dag.Event
	ev, tag, batch, pos int
	began               bool
	released            int
	onBegin             func(c *copyT, via string)
}

// ID is overridden to learn when the ordering buffer first looks at a copy: PushEvent(e) starts with
// e.ID(), and nothing before the push asks an enqueued object for its ID.
func (c *copyT) ID() hash.Event {
	if !c.began && c.onBegin != nil {
		c.onBegin(c, "pushed")
	}
	return c.Event.ID()
}

var errInjected = errors.New("injected")

const bufLimitNum = 2

func nthPerm(n, k int) []int {
	items := make([]int, n)
	for i := range items {
		items[i] = i
	}
	out := []int{}
	for i := n; i >= 1; i-- {
		f := 1
		for j := 2; j < i; j++ {
			f *= j
		}
		j := (k / f) % i
		k %= f
		out = append(out, items[j])
		items = append(items[:j], items[j+1:]...)
	}
	return out
}

func body(p program) func() {
	return func() {
		evs, _ := makeEvents()
		byID := map[hash.Event]int{}
		for i, e := range evs {
			byID[e.ID()] = i
		}
		var (
			copies    []*copyT
			connected = map[int]bool{}
			warnings  int
			accepted  int
			doneCnt   int
			stopped   bool
			// per batch: next expected position of handling start (ordered batches)
			began        = map[int][]int{}
			orderedBatch = map[int]bool{}
		)
		capacity := dag.Metric{Num: 100, Size: 1 << 30}
		if p.Tight {
			capacity = dag.Metric{Num: 2, Size: 1 << 30}
		}
		sem := datasemaphore.New(capacity, func(received, processing, releasing dag.Metric) { warnings++ })
		checkSem := func(where string) {
			if pr := sem.Processing(); pr.Num > capacity.Num || pr.Size > capacity.Size {
				sched.Fail("semaphore-over-capacity: events semaphore holds %v > capacity %v (%s)", pr, capacity, where)
			}
			if warnings > 0 {
				sched.Fail("semaphore-over-release: the events semaphore reported an over-release (%s)", where)
			}
		}
		begin := func(c *copyT, via string) {
			if c.began {
				return
			}
			c.began = true
			began[c.batch] = append(began[c.batch], c.pos)
			sched.Logf("begin(b%d[%d]=e%d,%s)", c.batch, c.pos, c.ev, via)
		}
		var proc *dagprocessor.Processor
		var pendingChecks [][]func() // per batch
		proc = dagprocessor.New(sem, dagprocessor.Config{EventsBufferLimit: dag.Metric{Num: bufLimitNum, Size: 1 << 30}, EventsSemaphoreTimeout: 50 * time.Millisecond, MaxTasks: 4},
			dagprocessor.Callback{
				HighestLamport: func() idx.Lamport { return idx.Lamport(p.Highest) },
				Event: dagprocessor.EventCallback{
					Process: func(e dag.Event) error {
						c := e.(*copyT)
						sched.Logf("Process(e%d#%d)", c.ev, c.tag)
						if int(e.Lamport()) > p.Highest+bufLimitNum+1 {
							sched.Fail("far-future-processed: Process(e%d) with Lamport %d > highest %d + limit %d + 1", c.ev, e.Lamport(), p.Highest, bufLimitNum)
						}
						if c.released > 0 {
							sched.Fail("process-after-released: Process(e%d copy %d) after its release", c.ev, c.tag)
						}
						if c.ev == p.FailProc {
							return errInjected
						}
						connected[c.ev] = true
						return nil
					},
					Released: func(e dag.Event, peer string, err error) {
						c := e.(*copyT)
						begin(c, "released")
						c.released++
						sched.Logf("Released(e%d#%d,%v)", c.ev, c.tag, err != nil)
						if c.released > 1 {
							sched.Fail("released-twice: event e%d (copy %d of batch %d) reported released %d times", c.ev, c.tag, c.batch, c.released)
						}
						checkSem("at Released")
					},
					Get: func(id hash.Event) dag.Event {
						if i, ok := byID[id]; ok && connected[i] {
							return evs[i]
						}
						return nil
					},
					Exists: func(id hash.Event) bool {
						i, ok := byID[id]
						return ok && connected[i]
					},
					CheckParents: func(e dag.Event, parents dag.Events) error { return nil },
					CheckParentless: func(e dag.Event, checked func(error)) {
						c := e.(*copyT)
						var err error
						if c.ev == p.FailCheck {
							err = errInjected
						}
						if !p.Async {
							checked(err)
							return
						}
						for len(pendingChecks) <= c.batch {
							pendingChecks = append(pendingChecks, nil)
						}
						pendingChecks[c.batch] = append(pendingChecks[c.batch], func() { checked(err) })
					},
				},
			})
		_ = proc
		proc.Start()
		nBatches := 0
		var completers []sched.Handle
		enqueue := func(b batch) {
			bi := nBatches
			nBatches++
			var des dag.Events
			var mine []*copyT
			for pos, ev := range b.Events {
				c := &copyT{Event: evs[ev], ev: ev, tag: len(copies), batch: bi, pos: pos, onBegin: begin}
				copies = append(copies, c)
				mine = append(mine, c)
				des = append(des, c)
			}
			if b.Ordered {
				orderedBatch[bi] = true
			}
			err := proc.Enqueue(fmt.Sprintf("peer%d", bi), des, b.Ordered, nil, func() { doneCnt++; sched.Logf("done(b%d)", bi) })
			sched.Logf("Enqueue(b%d %v)=%v", bi, b, err)
			checkSem("after Enqueue")
			if err != nil {
				for _, c := range mine {
					c.tag = -1 - c.tag // not accepted: no obligations
				}
				return
			}
			accepted++
			if p.Async {
				n := len(b.Events)
				completers = append(completers, sched.Spawn(fmt.Sprintf("checks-b%d", bi), func() {
					// wait until the checker worker has registered all checks of this batch
					sched.Block("checks registered", func() bool { return len(pendingChecks) > bi && len(pendingChecks[bi]) == n || stopped })
					if len(pendingChecks) <= bi || len(pendingChecks[bi]) != n {
						return
					}
					for _, k := range nthPerm(n, p.Perm) {
						pendingChecks[bi][k]()
					}
				}))
			}
		}
		var hs []sched.Handle
		hs = append(hs, sched.Spawn("A", func() {
			for _, b := range p.A {
				enqueue(b)
			}
		}))
		if p.BStop {
			hs = append(hs, sched.Spawn("B", func() { proc.Stop(); stopped = true; sched.Logf("Stop returned") }))
		} else if p.B != nil {
			hs = append(hs, sched.Spawn("B", func() {
				for _, b := range p.B {
					enqueue(b)
				}
			}))
		}
		sched.WaitAll(hs...)
		if !p.BStop {
			sched.Block("all batches done", func() bool { return doneCnt >= accepted })
			sched.WaitAll(completers...)
			sched.Quiesce()
			checkSem("all batches done")
			proc.Stop()
			stopped = true
		}
		sched.WaitAll(completers...)
		// obligations
		unreleased := 0
		for _, c := range copies {
			if c.tag < 0 {
				if c.released > 0 || c.began {
					sched.Fail("rejected-batch-handled: an event of a batch refused with an error was handled")
				}
				continue
			}
			if c.began && c.released != 1 {
				sched.Fail("handled-not-released: event e%d (copy %d, batch %d position %d) began handling but was released %d times by the time Stop returned", c.ev, c.tag, c.batch, c.pos, c.released)
			}
			if !p.BStop && c.released != 1 {
				sched.Fail("not-released: event e%d (copy %d, batch %d) of an accepted, completed batch was released %d times by the time Stop returned", c.ev, c.tag, c.batch, c.released)
			}
			if c.released == 0 {
				unreleased++
			}
		}
		for bi := 0; bi < nBatches; bi++ {
			order := began[bi]
			if !orderedBatch[bi] {
				continue
			}
			for k := 1; k < len(order); k++ {
				if order[k] < order[k-1] {
					sched.Fail("ordered-batch-out-of-order: handling of ordered batch %d began in position order %v", bi, order)
				}
			}
		}
		if warnings > 0 {
			sched.Fail("semaphore-over-release: the events semaphore reported an over-release")
		}
		if pr := sem.Processing(); unreleased == 0 && (pr.Num != 0 || pr.Size != 0) {
			// refused batches never acquired; accepted ones are all released
			sched.Fail("semaphore-not-zero: every event is released but the semaphore still holds %v", pr)
		}
	}
}

func sigOf(f string) string {
	if i := strings.Index(f, ":"); i > 0 && i < 60 {
		return f[:i]
	}
	return "failure"
}

type replay struct {
	Program program
	Choices []int
}

func main() {
	c := core.New("C15", "exploration")
	if c.Replay != "" {
		var rp replay
		if err := c.LoadReplay(&rp); err != nil {
			fmt.Println(err)
			c.Finish()
		}
		fmt.Println(rp.Program)
		r := sched.Run(rp.Choices, 30000, true, body(rp.Program))
		for _, l := range r.Trace {
			fmt.Println("  ", l)
		}
		fmt.Println("log:", strings.Join(r.Log, " | "))
		if r.Failure != "" {
			c.Violation(sigOf(r.Failure), rp, "%s", r.Failure)
		}
		c.Finish()
	}
	quick := c.Quick()
	lists := [][]int{{0}, {1, 0}, {0, 1}, {0, 1, 2}, {2, 1, 0}, {1, 2, 0}, {0, 3}, {3, 0}, {0, 0}, {4, 0}, {1}, {0, 1, 3}}
	var singles []batch
	for _, l := range lists {
		singles = append(singles, batch{l, true}, batch{l, false})
	}
	small := []batch{{[]int{0}, true}, {[]int{1, 0}, true}, {[]int{1}, false}, {[]int{0, 1}, false}, {[]int{2, 1}, true}}
	var as [][]batch
	for _, b := range singles {
		as = append(as, []batch{b})
	}
	for _, b1 := range small {
		for _, b2 := range small {
			as = append(as, []batch{b1, b2})
		}
	}
	type bopt struct {
		b    []batch
		stop bool
	}
	bs := []bopt{{nil, false}, {nil, true}}
	for _, b := range small {
		bs = append(bs, bopt{[]batch{b}, false})
	}
	var progs []program
	for _, a := range as {
		maxLen := 0
		for _, b := range a {
			if len(b.Events) > maxLen {
				maxLen = len(b.Events)
			}
		}
		nperm := 1
		for i := 2; i <= maxLen; i++ {
			nperm *= i
		}
		for _, bo := range bs {
			for mode := 0; mode <= nperm; mode++ { // 0 = inline, k = async with permutation k-1
				for _, fc := range []int{-1, 1} {
					for _, hi := range []int{0, 1} {
						for _, tight := range []bool{false, true} {
							if quick && ((fc >= 0 && hi == 1) || (tight && len(a) == 1 && bo.b == nil)) {
								continue
							}
							p := program{A: a, B: bo.b, BStop: bo.stop, Async: mode > 0, Perm: mode - 1, FailCheck: fc, FailProc: -1, Highest: hi, Tight: tight}
							if mode == 0 {
								p.Perm = 0
							}
							progs = append(progs, p)
						}
					}
				}
			}
		}
		// a failing Process in the middle of a chain
		progs = append(progs, program{A: a, Async: false, FailCheck: -1, FailProc: 1, Highest: 1})
	}
	c.Set("programs_total", len(progs))
	bound := 1
	if !quick {
		bound = 2
	}
	c.Assume("every departure from the canonical schedule (also at blocking points) counts as a deviation in this check: six mostly-blocked threads make free switches explode")
	c.Parallel(len(progs), func(i int) {
		p := progs[i]
		e := &sched.Explorer{Bound: bound, FreeSwitchCost: 1, MaxSteps: 30000, Body: body(p), VerifyEvery: 499, Stop: c.OutOfBudget}
		logs := map[string]bool{}
		e.Check = func(r sched.Result) bool {
			if r.Failure != "" {
				c.Violation(sigOf(r.Failure), replay{p, r.Choices}, "%s\n  program: %s\n  schedule: %v\n  log: %s", r.Failure, p, r.Choices, strings.Join(r.Log, " | "))
				return false
			}
			logs[strings.Join(r.Log, "|")] = true
			return true
		}
		e.Run()
		c.Count("evaluations", e.Execs)
		c.Count("scheduling_points", e.Points)
		c.Count("distinct_nontrivial", int64(len(logs)))
		c.Count("programs", 1)
		if len(logs) > 1 {
			c.Count("programs_with_several_outcomes", 1)
		}
	})
	if c.Lead() {
		c.Set("rule", "evaluations = complete executions (one schedule of one program on virtual time); distinct_nontrivial = distinct callback logs per program")
		c.Set("deviation_bound", bound)
		c.Sample(map[string]interface{}{"program": progs[len(progs)/2].String()})
		c.Sample(map[string]interface{}{"program": progs[7].String()})
		c.Assume("events e0..e3 form a chain with Lamport 1..4, e4 has a parent that never arrives; buffer limit 2 events; semaphore timeout 50ms virtual")
		c.Assume("'handling began' = the inserter's first Released / push into the ordering buffer for that copy; each enqueued event is a distinct wrapper object")
		c.Set("exhaustive", true)
	}
	c.Finish()
}
