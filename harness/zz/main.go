package main

import (
	_ "github.com/Fantom-foundation/lachesis-base/gossip/basestream/basestreamleecher"
	_ "github.com/Fantom-foundation/lachesis-base/gossip/basestream/basestreamleecher/basepeerleecher"
	_ "github.com/Fantom-foundation/lachesis-base/gossip/basestream/basestreamseeder"
	_ "github.com/Fantom-foundation/lachesis-base/gossip/dagprocessor"
	_ "github.com/Fantom-foundation/lachesis-base/gossip/itemsfetcher"
	_ "github.com/Fantom-foundation/lachesis-base/kvdb/flaggedproducer"
	_ "github.com/Fantom-foundation/lachesis-base/kvdb/flushable"
)

func main() {}
