// C22: a flushable store is its underlying store overlaid with the unflushed writes.
// Explicit-state exploration: a model-only BFS enumerates the reachable abstract states
// (underlying contents, overlay incl. tombstones, live snapshot, open iterator) to a depth bound;
// every outgoing transition of every state is then executed on the real Flushable / LazyFlushable
// (fresh instance, replay of the shortest path, one more operation) over a reference store, and the
// complete observable state is compared with the model.
package main

import (
	"bytes"
	"fmt"
	"sort"
	"strings"

	"github.com/Fantom-foundation/lachesis-base/kvdb"
	"github.com/Fantom-foundation/lachesis-base/kvdb/flushable"
	"verif/core"
	"verif/ref/kv"
)

// ---------- alphabet

type op struct {
	Kind string // put del batch flush drop uput udel snap snaprel itopen itnext itrel
	K, V string
	B    []op // batch content
	P, S *string
}

func (o op) String() string {
	switch o.Kind {
	case "put", "uput":
		return fmt.Sprintf("%s(%s,%s)", o.Kind, kv.Esc(o.K), kv.Esc(o.V))
	case "del", "udel":
		return fmt.Sprintf("%s(%s)", o.Kind, kv.Esc(o.K))
	case "batch":
		s := []string{}
		for _, b := range o.B {
			s = append(s, b.String())
		}
		return "batch[" + strings.Join(s, ",") + "]"
	case "itopen":
		return fmt.Sprintf("itopen(%s,%s)", ps(o.P), ps(o.S))
	}
	return o.Kind
}
func ps(p *string) string {
	if p == nil {
		return "nil"
	}
	return "'" + kv.Esc(*p) + "'"
}
func pb(p *string) []byte {
	if p == nil {
		return nil
	}
	return []byte(*p)
}
func sp(s string) *string { return &s }

// ---------- model

type itModel struct {
	p, s    *string
	last    string
	hasLast bool
	done    bool
	clean   bool
	stable  map[string]string          // keys continuously present and unchanged since creation
	ever    map[string]map[string]bool // (key,value) pairs that were in the view at some moment of its life
}

type model struct {
	under   map[string]string
	over    map[string]*string
	snap    map[string]string // nil = no live snapshot
	it      *itModel
	lazyRaw bool // lazy flushable whose underlying has not been produced yet
}

func (m *model) view() map[string]string {
	v := map[string]string{}
	if !m.lazyRaw {
		for k, x := range m.under {
			v[k] = x
		}
	}
	for k, x := range m.over {
		if x == nil {
			delete(v, k)
		} else {
			v[k] = *x
		}
	}
	return v
}

func mapKey(m map[string]string) string {
	keys := make([]string, 0, len(m))
	for k := range m {
		keys = append(keys, k)
	}
	sort.Strings(keys)
	var sb strings.Builder
	for _, k := range keys {
		sb.WriteString(kv.Esc(k) + "=" + kv.Esc(m[k]) + ";")
	}
	return sb.String()
}

func (m *model) key() string {
	var sb strings.Builder
	sb.WriteString("U:" + mapKey(m.under) + "|O:")
	keys := make([]string, 0, len(m.over))
	for k := range m.over {
		keys = append(keys, k)
	}
	sort.Strings(keys)
	for _, k := range keys {
		if m.over[k] == nil {
			sb.WriteString(kv.Esc(k) + "!;")
		} else {
			sb.WriteString(kv.Esc(k) + "=" + kv.Esc(*m.over[k]) + ";")
		}
	}
	if m.lazyRaw {
		sb.WriteString("|lazyraw")
	}
	if m.snap != nil {
		sb.WriteString("|S:" + mapKey(m.snap))
	}
	if it := m.it; it != nil {
		fmt.Fprintf(&sb, "|I:%s,%s,%v,%s,%v,%v,", ps(it.p), ps(it.s), it.hasLast, kv.Esc(it.last), it.done, it.clean)
		sb.WriteString(mapKey(it.stable) + "/")
		ek := []string{}
		for k, vs := range it.ever {
			for v := range vs {
				ek = append(ek, kv.Esc(k)+"="+kv.Esc(v))
			}
		}
		sort.Strings(ek)
		sb.WriteString(strings.Join(ek, ";"))
	}
	return sb.String()
}

func (m *model) clone() *model {
	n := &model{under: map[string]string{}, over: map[string]*string{}, lazyRaw: m.lazyRaw}
	for k, v := range m.under {
		n.under[k] = v
	}
	for k, v := range m.over {
		n.over[k] = v
	}
	if m.snap != nil {
		n.snap = map[string]string{}
		for k, v := range m.snap {
			n.snap[k] = v
		}
	}
	if m.it != nil {
		it := *m.it
		it.stable = map[string]string{}
		for k, v := range m.it.stable {
			it.stable[k] = v
		}
		it.ever = map[string]map[string]bool{}
		for k, vs := range m.it.ever {
			it.ever[k] = map[string]bool{}
			for v := range vs {
				it.ever[k][v] = true
			}
		}
		n.it = &it
	}
	return n
}

// viewChanged must be called after every op that may change the view.
func (m *model) viewChanged(before map[string]string) {
	if m.it == nil {
		return
	}
	after := m.view()
	same := len(before) == len(after)
	for k, v := range after {
		if bv, ok := before[k]; !ok || bv != v {
			same = false
		}
		if m.it.ever[k] == nil {
			m.it.ever[k] = map[string]bool{}
		}
		m.it.ever[k][v] = true
	}
	for k, v := range m.it.stable {
		if av, ok := after[k]; !ok || av != v {
			delete(m.it.stable, k)
		}
	}
	_ = same
}

func inRange(k string, p, s *string) bool {
	kb := []byte(k)
	return bytes.HasPrefix(kb, pb(p)) && bytes.Compare(kb, append(append([]byte{}, pb(p)...), pb(s)...)) >= 0
}

// enabled reports whether the op applies in this model state.
func (m *model) enabled(o op, lazy bool) bool {
	switch o.Kind {
	case "initunder":
		return lazy && m.lazyRaw
	case "snap":
		return m.snap == nil
	case "snaprel":
		return m.snap != nil
	case "itopen":
		return m.it == nil
	case "itnext":
		return m.it != nil && !m.it.done
	case "itrel":
		return m.it != nil
	}
	return true
}

// step applies o to the model (no real code involved).
func (m *model) step(o op) {
	before := m.view()
	dirty := true
	switch o.Kind {
	case "put":
		v := o.V
		m.over[o.K] = &v
	case "del":
		m.over[o.K] = nil
	case "batch":
		for _, b := range o.B {
			if b.Kind == "put" {
				v := b.V
				m.over[b.K] = &v
			} else {
				m.over[b.K] = nil
			}
		}
	case "flush":
		if m.lazyRaw {
			m.lazyRaw = false
		}
		for k, v := range m.over {
			if v == nil {
				delete(m.under, k)
			} else {
				m.under[k] = *v
			}
		}
		m.over = map[string]*string{}
	case "drop":
		m.over = map[string]*string{}
	case "uput":
		m.under[o.K] = o.V
	case "udel":
		delete(m.under, o.K)
	case "initunder":
		m.lazyRaw = false // InitUnderlyingDb attaches the produced store: its content becomes visible
	case "snap":
		m.snap = m.view()
		dirty = false
	case "snaprel":
		m.snap = nil
		dirty = false
	case "itopen":
		v := m.view()
		it := &itModel{p: o.P, s: o.S, clean: true, stable: map[string]string{}, ever: map[string]map[string]bool{}}
		for k, x := range v {
			it.stable[k] = x
			it.ever[k] = map[string]bool{x: true}
		}
		m.it = it
		dirty = false
	case "itnext", "itrel":
		dirty = false
		if o.Kind == "itrel" {
			m.it = nil
		}
		// itnext's model effect depends on the real answer for dirty iterators; see exec()
	}
	if dirty {
		if m.it != nil {
			m.it.clean = false
		}
		m.viewChanged(before)
	}
}

// modelNext: answer of a clean iterator.
func (m *model) cleanNext() (string, string, bool) {
	it := m.it
	v := m.view()
	best, found := "", false
	for k := range v {
		if !inRange(k, it.p, it.s) || (it.hasLast && k <= it.last) {
			continue
		}
		if !found || k < best {
			best, found = k, true
		}
	}
	if !found {
		return "", "", false // (the empty string is a real key: do not look it up)
	}
	return best, v[best], true
}

// ---------- real environment

type env struct {
	u    *kv.Store
	f    kvdb.FlushableKVStore
	lazy *flushable.LazyFlushable
	snap kvdb.Snapshot
	it   kvdb.Iterator
}

func newEnv(lazy bool) *env {
	e := &env{u: kv.New()}
	if lazy {
		e.lazy = flushable.NewLazy(func() (kvdb.Store, error) { return e.u, nil }, func() {})
		e.f = e.lazy
	} else {
		e.f = flushable.Wrap(e.u)
	}
	return e
}

type recorder struct{ ops []string }

func (r *recorder) Put(k, v []byte) error {
	r.ops = append(r.ops, "put("+kv.Esc(string(k))+","+kv.Esc(string(v))+")")
	return nil
}
func (r *recorder) Delete(k []byte) error {
	r.ops = append(r.ops, "del("+kv.Esc(string(k))+")")
	return nil
}

// exec applies o to the real env and the model; returns a mismatch description or "".
func exec(e *env, m *model, o op) (msg string) {
	switch o.Kind {
	case "put":
		if err := e.f.Put([]byte(o.K), []byte(o.V)); err != nil {
			return "Put error " + err.Error()
		}
	case "del":
		if err := e.f.Delete([]byte(o.K)); err != nil {
			return "Delete error " + err.Error()
		}
	case "batch":
		b := e.f.NewBatch()
		size := 0
		want := []string{}
		for _, w := range o.B {
			if w.Kind == "put" {
				b.Put([]byte(w.K), []byte(w.V))
				size += len(w.K) + len(w.V)
			} else {
				b.Delete([]byte(w.K))
				size += len(w.K)
			}
			want = append(want, w.String())
		}
		if b.ValueSize() != size {
			return fmt.Sprintf("batch ValueSize=%d want %d", b.ValueSize(), size)
		}
		var r recorder
		if err := b.Replay(&r); err != nil || fmt.Sprint(r.ops) != fmt.Sprint(want) {
			return fmt.Sprintf("batch Replay gave %v (err %v), want %v", r.ops, err, want)
		}
		if err := b.Write(); err != nil {
			return "batch Write error " + err.Error()
		}
	case "flush":
		if err := e.f.Flush(); err != nil {
			return "Flush error " + err.Error()
		}
	case "drop":
		e.f.DropNotFlushed()
	case "initunder":
		if _, err := e.lazy.InitUnderlyingDb(); err != nil {
			return "InitUnderlyingDb error " + err.Error()
		}
	case "uput":
		e.u.Put([]byte(o.K), []byte(o.V))
	case "udel":
		e.u.Delete([]byte(o.K))
	case "snap":
		s, err := e.f.GetSnapshot()
		if err != nil {
			return "GetSnapshot error " + err.Error()
		}
		e.snap = s
	case "snaprel":
		e.snap.Release()
		e.snap = nil
	case "itopen":
		e.it = e.f.NewIterator(pb(o.P), pb(o.S))
	case "itrel":
		e.it.Release()
		e.it = nil
	case "itnext":
		ok := e.it.Next()
		var k, v string
		if ok {
			k, v = string(e.it.Key()), string(e.it.Value())
		}
		it := m.it
		if err := e.it.Error(); err != nil {
			return "iterator error " + err.Error()
		}
		if it.clean {
			wk, wv, wok := m.cleanNext()
			if ok != wok || k != wk || v != wv {
				return fmt.Sprintf("iterator(%s,%s).Next = (%q,%q,%v), view says (%q,%q,%v)", ps(it.p), ps(it.s), k, v, ok, wk, wv, wok)
			}
		} else {
			// weakly-consistent contract for an iterator that spans later writes
			if ok {
				if !inRange(k, it.p, it.s) {
					return fmt.Sprintf("iterator(%s,%s) returned out-of-range key %q", ps(it.p), ps(it.s), k)
				}
				if it.hasLast && k <= it.last {
					return fmt.Sprintf("iterator returned %q after %q (not ascending)", k, it.last)
				}
				if !it.ever[k][v] {
					return fmt.Sprintf("iterator returned (%q,%q), which was never in the view during its life", k, v)
				}
			}
			for sk := range it.stable {
				if !inRange(sk, it.p, it.s) || (it.hasLast && sk <= it.last) {
					continue
				}
				if !ok || sk < k {
					return fmt.Sprintf("iterator(%s,%s) skipped key %q that was present and unchanged during its whole life (returned %q ok=%v after %q)", ps(it.p), ps(it.s), sk, k, ok, it.last)
				}
			}
		}
		if ok {
			it.last, it.hasLast = k, true
		} else {
			it.done = true
		}
	}
	m.step(o)
	return ""
}

func readAll(r kvdb.Iteratee, p, s *string) ([][2]string, error) {
	it := r.NewIterator(pb(p), pb(s))
	defer it.Release()
	var out [][2]string
	for it.Next() {
		out = append(out, [2]string{string(it.Key()), string(it.Value())})
	}
	return out, it.Error()
}

func wantRange(v map[string]string, p, s *string) [][2]string {
	var out [][2]string
	for k, x := range v {
		if inRange(k, p, s) {
			out = append(out, [2]string{k, x})
		}
	}
	sort.Slice(out, func(i, j int) bool { return out[i][0] < out[j][0] })
	return out
}

var allKeys []string
var prefixes, starts []*string

// observe compares everything readable; full = every (prefix,start) pair, else only the full scan.
func observeReader(what string, r kvdb.IteratedReader, v map[string]string, full bool) string {
	for _, k := range allKeys {
		got, err := r.Get([]byte(k))
		has, err2 := r.Has([]byte(k))
		x, ok := v[k]
		if err != nil || err2 != nil {
			return fmt.Sprintf("%s Get/Has(%q) error %v %v", what, k, err, err2)
		}
		if ok != has || ok != (got != nil) || (ok && string(got) != x) {
			return fmt.Sprintf("%s Get(%q)=%q(nil=%v) Has=%v, view says present=%v value=%q", what, k, got, got == nil, has, ok, x)
		}
	}
	pp, ss := prefixes, starts
	if !full {
		pp, ss = prefixes[:2], starts[:1]
	}
	for _, p := range pp {
		for _, s := range ss {
			got, err := readAll(r, p, s)
			if err != nil {
				return fmt.Sprintf("%s iterate(%s,%s) error %v", what, ps(p), ps(s), err)
			}
			want := wantRange(v, p, s)
			if fmt.Sprint(got) != fmt.Sprint(want) {
				return fmt.Sprintf("%s iterate(%s,%s) = %q, view says %q", what, ps(p), ps(s), got, want)
			}
		}
	}
	return ""
}

func observe(e *env, m *model, full bool) string {
	if msg := observeReader("store", e.f, m.view(), full); msg != "" {
		return msg
	}
	if n := e.f.NotFlushedPairs(); n != len(m.over) {
		return fmt.Sprintf("NotFlushedPairs=%d, distinct keys written since last flush/drop=%d", n, len(m.over))
	}
	if (e.f.NotFlushedSizeEst() == 0) != (len(m.over) == 0) {
		return fmt.Sprintf("NotFlushedSizeEst=%d with %d unflushed keys", e.f.NotFlushedSizeEst(), len(m.over))
	}
	// the underlying store itself
	um := map[string]string{}
	for k, v := range e.u.M {
		um[k] = string(v)
	}
	if mapKey(um) != mapKey(m.under) {
		return fmt.Sprintf("underlying store holds {%s}, model {%s}", mapKey(um), mapKey(m.under))
	}
	if e.snap != nil {
		if msg := observeReader("snapshot", e.snap, m.snap, full); msg != "" {
			return msg
		}
	}
	return ""
}

type node struct {
	m      *model
	parent int
	op     int
	depth  int
}

func main() {
	c := core.New("C22", "model_checking")
	quick := c.Quick()
	wkeys := []string{"a", "ab", "a\xff", "b", ""} // the empty key is a legal key (and the smallest one)
	depth := 4
	maxStates := 60000
	if !quick {
		depth = 6
		maxStates = 400000
	}
	allKeys = []string{"", "a", "a\x00", "ab", "a\xff", "b", "\xff", "\xff\xff"}
	for _, p := range []string{"a", "ab", "a\xff", "b", "\xff", "c"} {
		prefixes = append(prefixes, sp(p))
	}
	prefixes = append([]*string{nil, sp("")}, prefixes...)
	starts = []*string{nil, sp(""), sp("a"), sp("b"), sp("\xff"), sp("\x00")}
	vals := []string{"x", ""}
	var ops []op
	for _, k := range wkeys {
		for _, v := range vals {
			ops = append(ops, op{Kind: "put", K: k, V: v})
		}
		ops = append(ops, op{Kind: "del", K: k})
	}
	bw := []op{{Kind: "put", K: "a", V: "y"}, {Kind: "put", K: "ab", V: ""}, {Kind: "del", K: "a"}, {Kind: "del", K: "b"}}
	for _, x := range bw {
		for _, y := range bw {
			ops = append(ops, op{Kind: "batch", B: []op{x, y}})
		}
	}
	ops = append(ops, op{Kind: "batch", B: nil})
	ops = append(ops, op{Kind: "flush"}, op{Kind: "drop"}, op{Kind: "initunder"})
	for _, k := range []string{"a", "ab", "b", ""} {
		ops = append(ops, op{Kind: "uput", K: k, V: "u"}, op{Kind: "udel", K: k})
	}
	ops = append(ops, op{Kind: "snap"}, op{Kind: "snaprel"})
	for _, pq := range [][2]*string{{nil, nil}, {sp("a"), nil}, {sp("a"), sp("b")}, {nil, sp("ab")}, {sp("a\xff"), nil}} {
		ops = append(ops, op{Kind: "itopen", P: pq[0], S: pq[1]})
	}
	ops = append(ops, op{Kind: "itnext"}, op{Kind: "itrel"})
	c.Set("alphabet_ops", len(ops))
	c.Set("depth_bound", depth)

	for _, lazy := range []bool{false, true} {
		impl := "Flushable"
		if lazy {
			impl = "LazyFlushable"
		}
		// ---- model-only BFS (deterministic, repeated identically in every worker)
		init := &model{under: map[string]string{}, over: map[string]*string{}, lazyRaw: lazy}
		nodes := []node{{m: init, parent: -1, op: -1}}
		seen := map[string]bool{init.key(): true}
		// dirty-iterator answers depend on the real code; such transitions are explored on the real
		// object only (no successor state is derived from them in the model BFS)
		for i := 0; i < len(nodes) && len(nodes) < maxStates; i++ {
			n := nodes[i]
			if n.depth >= depth {
				continue
			}
			for oi, o := range ops {
				if !n.m.enabled(o, lazy) {
					continue
				}
				if o.Kind == "itnext" && !n.m.it.clean {
					continue
				}
				nm := n.m.clone()
				if o.Kind == "itnext" {
					k, _, ok := nm.cleanNext()
					if ok {
						nm.it.last, nm.it.hasLast = k, true
					} else {
						nm.it.done = true
					}
				}
				nm.step(o)
				key := nm.key()
				if !seen[key] {
					seen[key] = true
					nodes = append(nodes, node{m: nm, parent: i, op: oi, depth: n.depth + 1})
				}
			}
		}
		treeEdge := map[[2]int]bool{}
		for j := 1; j < len(nodes); j++ {
			treeEdge[[2]int{nodes[j].parent, nodes[j].op}] = true
		}
		truncated := len(nodes) >= maxStates
		pathOf := func(i int) []int {
			var p []int
			for i > 0 {
				p = append(p, nodes[i].op)
				i = nodes[i].parent
			}
			for a, b := 0, len(p)-1; a < b; a, b = a+1, b-1 {
				p[a], p[b] = p[b], p[a]
			}
			return p
		}
		if c.Lead() {
			c.Count("states", int64(len(nodes)))
		}
		if truncated {
			c.Set("state_cap_hit_"+impl, true)
		}
		// ---- validation of every transition on the real code
		c.Parallel(len(nodes), func(i int) {
			path := pathOf(i)
			var trans int64
			for oi, o := range ops {
				if !nodes[i].m.enabled(o, lazy) {
					continue
				}
				e := newEnv(lazy)
				m := &model{under: map[string]string{}, over: map[string]*string{}, lazyRaw: lazy}
				describe := func(upto int, last *op) map[string]interface{} {
					s := []string{}
					for _, pi := range path[:upto] {
						s = append(s, ops[pi].String())
					}
					if last != nil {
						s = append(s, last.String())
					}
					return map[string]interface{}{"impl": impl, "ops": s}
				}
				failed := false
				for pi, po := range path {
					msg := exec(e, m, ops[po])
					if msg != "" {
						// already reported when this prefix was the "one more op" of an earlier state
						c.Violation(impl+"/"+ops[po].Kind, describe(pi+1, nil), "%s after %v: %s", impl, describe(pi+1, nil)["ops"], msg)
						failed = true
						break
					}
				}
				if failed {
					break
				}
				if m.key() != nodes[i].m.key() {
					c.Violation("engine/model-replay", describe(len(path), nil), "model replay diverged")
					break
				}
				trans++
				msg := exec(e, m, o)
				if msg == "" {
					// full observation (every prefix/start pair) on the edge that first discovers a state,
					// the cheap one (all keys + full scans + counters + snapshot) on every other edge
					msg = observe(e, m, treeEdge[[2]int{i, oi}])
				}
				if msg != "" {
					c.Violation(impl+"/"+o.Kind, describe(len(path), &o), "%s after %v: %s", impl, describe(len(path), &o)["ops"], msg)
				}
			}
			c.Count("transitions", trans)
			c.Count("traces_validated_against_impl", trans)
			if i%20000 == 7 {
				s := []string{}
				for _, pi := range path {
					s = append(s, ops[pi].String())
				}
				c.Sample(map[string]interface{}{"impl": impl, "path": s, "state": nodes[i].m.key()})
			}
		})
	}
	c.Set("exhaustive", !c.Capped())
	c.Set("exhaustive_note", "exhaustive = every operation of the alphabet executed in every abstract state reachable within depth_bound (state cap flags say if the model BFS was cut)")
	c.Set("dedup_argument", "abstract state = underlying contents + overlay incl. tombstones + live snapshot contents + open-iterator (range, cursor, cleanliness, life-time view history); these determine every later observable of the model, and every real transition is re-validated by full observation, so hidden real state (tree shape, size estimate) cannot be merged away unnoticed along the paths explored")
	c.Assume("an iterator that spans later writes/flushes/drops is held only to the weakly-consistent contract (ascending, in range, every returned pair was in the view at some moment of its life, no key that stayed present and unchanged is skipped); the statement promises no snapshot isolation for iterators")
	c.Assume("LazyFlushable: before its first Flush / InitUnderlyingDb the produced store is not attached by design, so its content is invisible; both attach it")
	c.Finish()
}
