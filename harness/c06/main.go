// C06: the merged vector clock reports the highest observed sequence or a fork, for every DAG of the bounded families,
// every parents-first indexing order (ideal lattice), every pair (A,B), warm/cold/tiny caches and
// interrupted (dropped / reset) additions.
package main

import (
	"verif/cons"
	"verif/core"
)

func main() {
	c := core.New("C06", "model_checking")
	c.Set("rule", "DAG families F-all/F-fork (all DAGs up to N events over several weight vectors, 0-2 fork events at every position); for each DAG every ideal of the lattice = every parents-first order; on every edge the merged clock of every event for every validator is compared with the graph definition (warm, repeated, cold caches; cache sizes lite/1/0/default; Add modes plain / add-drop-add / add-reset-add)")
	cons.ExploreIndex(c, "clock")
	c.Assume("reference = ref/lachesis Clock (bitset graph closure); events are indexed with Add+Flush as the consensus does")
	c.Finish()
}
