// C13: event checkers accept exactly well-formed events.
// Exhaustive product of boundary field values x epoch match x creator membership x all ordered
// parent lists (length 0-3, duplicates allowed) from a pool built relative to the event.
// Oracle: the predicate of the property statement, transcribed independently of the checkers.
package main

import (
	"fmt"

	"github.com/Fantom-foundation/lachesis-base/eventcheck"
	"github.com/Fantom-foundation/lachesis-base/eventcheck/basiccheck"
	"github.com/Fantom-foundation/lachesis-base/eventcheck/epochcheck"
	"github.com/Fantom-foundation/lachesis-base/eventcheck/parentscheck"
	"github.com/Fantom-foundation/lachesis-base/hash"
	"github.com/Fantom-foundation/lachesis-base/inter/dag"
	"github.com/Fantom-foundation/lachesis-base/inter/idx"
	"github.com/Fantom-foundation/lachesis-base/inter/pos"
	"verif/core"
)

type reader struct {
	vv *pos.Validators
	ep idx.Epoch
}

func (r *reader) GetEpochValidators() (*pos.Validators, idx.Epoch) { return r.vv, r.ep }

type pspec struct {
	creator int // 0 self, 1 other1, 2 other2
	seqRel  int // 0: seq-1, 1: seq, 2: 1
	lamRel  int // 0: lam-1, 1: lam, 2: lam-2
}

const lim = 1<<31 - 2 // fields must be < 2^31-2

func main() {
	c := core.New("C13", "exploration")
	c.Set("rule", "product of boundary values for seq/epoch/frame/lamport x {epoch current, not} x {creator validator, not} x all ordered parent lists of length 0-3 (with duplicates) over a pool of parents defined relative to the event; non-trivial = distinct input whose verdict flips when a single field/parent is changed (counted as: accepted inputs plus rejected inputs with exactly one failing clause)")
	big := []uint32{0, 1, 2, 3, 1<<31 - 3, 1<<31 - 2, 1<<31 - 1, 1<<32 - 1}
	small := []uint32{0, 1, 2, 1<<31 - 3, 1<<31 - 2, 1<<32 - 1}
	var pool []pspec
	if c.Quick() {
		for s := 0; s < 3; s++ {
			for l := 0; l < 3; l++ {
				pool = append(pool, pspec{0, s, l})
			}
		}
		pool = append(pool, pspec{1, 1, 0}, pspec{1, 1, 1}, pspec{1, 0, 2}, pspec{2, 2, 0}, pspec{2, 1, 1})
	} else {
		for cr := 0; cr < 3; cr++ {
			for s := 0; s < 3; s++ {
				for l := 0; l < 3; l++ {
					pool = append(pool, pspec{cr, s, l})
				}
			}
		}
	}
	np := len(pool)
	var lists [][]int
	lists = append(lists, []int{})
	for a := 0; a < np; a++ {
		lists = append(lists, []int{a})
		for b := 0; b < np; b++ {
			lists = append(lists, []int{a, b})
			for d := 0; d < np; d++ {
				lists = append(lists, []int{a, b, d})
			}
		}
	}
	c.Set("parent_pool", np)
	c.Set("parent_lists", len(lists))

	creators := []idx.ValidatorID{5, 6, 7} // self, other1, other2
	vIn := pos.ArrayToValidators([]idx.ValidatorID{5, 6, 7}, []pos.Weight{1, 1, 1})
	vOut := pos.ArrayToValidators([]idx.ValidatorID{6, 7, 8}, []pos.Weight{1, 1, 1})

	type fld struct{ seq, lam uint32 }
	var items []fld
	for _, s := range big {
		for _, l := range big {
			items = append(items, fld{s, l})
		}
	}
	c.Parallel(len(items), func(ii int) {
		seq, lam := items[ii].seq, items[ii].lam
		// parent events for this (seq, lamport)
		pev := make([]dag.Event, np)
		for i, ps := range pool {
			var me dag.MutableBaseEvent
			me.SetCreator(creators[ps.creator])
			me.SetEpoch(1)
			me.SetFrame(1)
			me.SetSeq(idx.Event([]uint32{seq - 1, seq, 1}[ps.seqRel]))
			me.SetLamport(idx.Lamport([]uint32{lam - 1, lam, lam - 2}[ps.lamRel]))
			var tail [24]byte
			tail[0] = byte(i + 1)
			if i%2 == 1 {
				// this parent's ID was stamped while the event carried another Lamport time (an ID is an opaque name:
				// the checks must use the parent event's Lamport time, not bytes of its ID)
				real := me.Lamport()
				me.SetLamport(1)
				me.SetID(tail)
				me.SetLamport(real)
			} else {
				me.SetID(tail)
			}
			pev[i] = &me.BaseEvent
		}
		var evals, accepted, boundary int64
		// the next epoch's group is derived from the current one while the current one is still in use (a built
		// group is read-only: the checks must keep judging membership by the current group)
		if nb := vIn.Builder(); true {
			nb.Set(creators[0], 0)
			nb.Set(8, 1)
			_ = nb.Build()
		}
		// ONE checker object over a reader whose answers change between calls (a node keeps its checkers across
		// epoch changes): its verdicts must always follow the reader's current answer
		rd := &reader{vIn, 0}
		chk := &eventcheck.Checkers{Basiccheck: basiccheck.New(), Epochcheck: epochcheck.New(rd), Parentscheck: parentscheck.New()}
		for _, epoch := range small {
			for _, frame := range small {
				for em := 0; em < 2; em++ {
					for cm := 0; cm < 2; cm++ {
						rd.vv, rd.ep = vIn, idx.Epoch(epoch)
						if em == 1 {
							rd.ep = idx.Epoch(epoch + 1)
						}
						if cm == 1 {
							rd.vv = vOut
						}
						for _, pl := range lists {
							var me dag.MutableBaseEvent
							me.SetCreator(creators[0])
							me.SetEpoch(idx.Epoch(epoch))
							me.SetFrame(idx.Frame(frame))
							me.SetSeq(idx.Event(seq))
							me.SetLamport(idx.Lamport(lam))
							ids := make(hash.Events, len(pl))
							parents := make(dag.Events, len(pl))
							for k, pi := range pl {
								ids[k] = pev[pi].ID()
								parents[k] = pev[pi]
							}
							me.SetParents(ids)
							var tail [24]byte
							tail[23] = 0xee
							me.SetID(tail)
							e := &me.BaseEvent
							var err error
							if pv := core.Catch(func() { err = chk.Validate(e, parents) }); pv != nil {
								c.Violation("checker-panic", describe(seq, epoch, frame, lam, em, cm, pl, pool), "checkers panicked: %v", pv)
								continue
							}
							// ---- reference predicate (from the statement)
							fails := 0
							inRange := func(v uint32) bool { return v != 0 && v < lim }
							if !(inRange(seq) && inRange(epoch) && inRange(frame) && inRange(lam)) {
								fails++
							}
							distinct := true
							for a := range pl {
								for b := a + 1; b < len(pl); b++ {
									if pl[a] == pl[b] {
										distinct = false
									}
								}
							}
							if !distinct || (seq > 1 && len(pl) == 0) {
								fails++
							}
							if em == 1 || cm == 1 {
								fails++
							}
							var maxL uint64
							for _, pi := range pl {
								if l := uint64(pev[pi].Lamport()); l > maxL {
									maxL = l
								}
							}
							if uint64(lam) != maxL+1 {
								fails++
							}
							// own-creator parents: exactly the first one iff seq > 1, with seq one lower
							selfOK := true
							for k, pi := range pl {
								own := pool[pi].creator == 0
								if own != (seq > 1 && k == 0) {
									selfOK = false
								}
							}
							if seq > 1 && (len(pl) == 0 || uint64(pev[pl[0]].Seq())+1 != uint64(seq)) {
								selfOK = false
							}
							if !selfOK {
								fails++
							}
							want := fails == 0
							evals++
							if want {
								accepted++
							}
							if fails <= 1 {
								boundary++
							}
							if (err == nil) != want {
								c.Violation(fmt.Sprintf("verdict-accept=%v", err == nil), describe(seq, epoch, frame, lam, em, cm, pl, pool),
									"checkers returned %v, statement says accept=%v for %s", err, want, describe(seq, epoch, frame, lam, em, cm, pl, pool))
							}
						}
					}
				}
			}
		}
		c.Count("evaluations", evals)
		c.Count("accepted", accepted)
		c.Count("distinct_nontrivial", boundary)
	})
	c.Set("exhaustive", !c.Capped())
	c.Sample(describe(2, 1, 1, 4, 0, 0, []int{0, 9}, pool))
	c.Sample(describe(1<<31-3, 1<<31-3, 1, 1<<31-3, 0, 0, []int{0}, pool))
	c.Assume("the parents argument passed to the checkers is the list of events named by the event's parent IDs (the documented calling convention)")
	c.Finish()
}

func describe(seq, epoch, frame, lam uint32, em, cm int, pl []int, pool []pspec) string {
	s := fmt.Sprintf("event{seq=%d epoch=%d frame=%d lamport=%d currentEpoch=%s creatorIsValidator=%v parents=[", seq, epoch, frame, lam,
		map[int]string{0: "same", 1: "epoch+1"}[em], cm == 0)
	for _, pi := range pl {
		p := pool[pi]
		s += fmt.Sprintf("(%s,seq=%s,lamport=%s)", []string{"self", "other1", "other2"}[p.creator], []string{"seq-1", "seq", "1"}[p.seqRel], []string{"lam-1", "lam", "lam-2"}[p.lamRel])
	}
	return s + "]}"
}
