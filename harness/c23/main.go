// C23: storage backends and wrappers share one key-value semantics.
// Differential bounded-exhaustive exploration: every operation sequence up to a depth bound over a
// colliding key/value alphabet is executed on every stack (memory, LevelDB, Pebble; bare and under
// table / flushable / synced / table-over-flushable wrappers) and every result, plus a complete
// observation of the final state (Get/Has for all keys, iteration for every (prefix,start), the live
// snapshot), is compared with a sorted-map reference.
package main

import (
	"bytes"
	"fmt"
	"os"
	"sync"

	"github.com/Fantom-foundation/lachesis-base/kvdb"
	"github.com/Fantom-foundation/lachesis-base/kvdb/flushable"
	"github.com/Fantom-foundation/lachesis-base/kvdb/leveldb"
	"github.com/Fantom-foundation/lachesis-base/kvdb/memorydb"
	"github.com/Fantom-foundation/lachesis-base/kvdb/pebble"
	"github.com/Fantom-foundation/lachesis-base/kvdb/synced"
	"github.com/Fantom-foundation/lachesis-base/kvdb/table"
	"verif/core"
	"verif/ref/kv"
)

type op struct {
	Kind string // put del batch snap flush
	K, V string
	B    []op
}

func (o op) String() string {
	switch o.Kind {
	case "put":
		return "put(" + kv.Esc(o.K) + "," + kv.Esc(o.V) + ")"
	case "del":
		return "del(" + kv.Esc(o.K) + ")"
	case "batch":
		s := "batch["
		for _, b := range o.B {
			s += b.String()
		}
		return s + "]"
	}
	return o.Kind
}

type recorder struct{ ops []string }

func (r *recorder) Put(k, v []byte) error {
	r.ops = append(r.ops, "put("+kv.Esc(string(k))+","+kv.Esc(string(v))+")")
	return nil
}
func (r *recorder) Delete(k []byte) error {
	r.ops = append(r.ops, "del("+kv.Esc(string(k))+")")
	return nil
}

type stack struct {
	name    string
	base    kvdb.Store // the backend (wiped between sequences)
	top     func(base kvdb.Store) (kvdb.Store, func() error)
	flusher bool
}

var allKeys, probeKeys []string
var prefixes, starts [][]byte

func readAll(r kvdb.Iteratee, p, s []byte) ([][2]string, error) {
	it := r.NewIterator(p, s)
	defer it.Release()
	var out [][2]string
	for it.Next() {
		out = append(out, [2]string{string(it.Key()), string(it.Value())})
	}
	return out, it.Error()
}

// readAllInterleaved iterates like readAll, but between the steps other reads go through the same store (a lookup
// of another key, a second iterator that is opened, advanced and released): reads must not disturb a live iterator
func readAllInterleaved(r kvdb.IteratedReader, p, s []byte) ([][2]string, error) {
	it := r.NewIterator(p, s)
	defer it.Release()
	var out [][2]string
	i := 0
	for it.Next() {
		out = append(out, [2]string{string(it.Key()), string(it.Value())})
		// keys that differ from the iteration prefix in the first byte as well as keys that share it
		k := probeKeys[i%len(probeKeys)]
		if i%2 == 0 {
			k = "a"
			if len(p) > 0 && p[0] == 'a' {
				k = "\xff"
			}
		}
		i++
		_, _ = r.Get([]byte(k))
		_, _ = r.Has([]byte(k + "z"))
		it2 := r.NewIterator([]byte(k), nil)
		it2.Next()
		it2.Release()
	}
	return out, it.Error()
}

func observe(what string, r kvdb.IteratedReader, m map[string][]byte) string {
	for _, k := range probeKeys {
		got, err := r.Get([]byte(k))
		has, err2 := r.Has([]byte(k))
		w, ok := m[k]
		if err != nil || err2 != nil {
			return fmt.Sprintf("%s Get/Has(%q) error %v / %v", what, k, err, err2)
		}
		if has != ok || (got != nil) != ok || (ok && !bytes.Equal(got, w)) {
			return fmt.Sprintf("%s Get(%q)=%q (nil=%v) Has=%v; ordered-map model: present=%v value=%q", what, k, got, got == nil, has, ok, w)
		}
	}
	for _, p := range prefixes {
		for _, s := range starts {
			got, err := readAll(r, p, s)
			want := kv.Range(m, p, s)
			if err != nil || fmt.Sprint(got) != fmt.Sprint(want) {
				return fmt.Sprintf("%s iterate(prefix=%q,start=%q)=%q err=%v; model %q", what, p, s, got, err, want)
			}
			if len(want) > 0 {
				got, err = readAllInterleaved(r, p, s)
				if err != nil || fmt.Sprint(got) != fmt.Sprint(want) {
					return fmt.Sprintf("%s iterate(prefix=%q,start=%q) with other reads between the steps =%q err=%v; model %q", what, p, s, got, err, want)
				}
			}
		}
	}
	return ""
}

func wipe(s kvdb.Store) error {
	it := s.NewIterator(nil, nil)
	var keys [][]byte
	for it.Next() {
		keys = append(keys, append([]byte{}, it.Key()...))
	}
	it.Release()
	for _, k := range keys {
		if err := s.Delete(k); err != nil {
			return err
		}
	}
	if rest, _ := readAll(s, nil, nil); len(rest) != 0 {
		return fmt.Errorf("wipe left %d keys", len(rest))
	}
	return nil
}

func run(c *core.Ctx, st *stack, ops []op, seq []int, prefilled bool) bool {
	if err := wipe(st.base); err != nil {
		c.Violation("engine/wipe", nil, "cannot wipe %s: %v", st.name, err)
		return false
	}
	s, flush := st.top(st.base)
	model := map[string][]byte{}
	if prefilled {
		// start from a populated store whose keys sit in the lowest layer (flushed) and fill the gaps
		// next to the 0xff-boundary prefixes
		for k, v := range map[string]string{"a": "p", "a\xff": "q", "b": "r", "\x02": "s", "\x01\xff": "u", "\xff\xff": ""} {
			if err := s.Put([]byte(k), []byte(v)); err != nil {
				c.Violation("engine/prefill", nil, "prefill of %s failed: %v", st.name, err)
				return false
			}
			model[k] = []byte(v)
		}
		if flush != nil {
			if err := flush(); err != nil {
				c.Violation("engine/prefill", nil, "prefill flush of %s failed: %v", st.name, err)
				return false
			}
		}
	}
	var snap kvdb.Snapshot
	var snapModel map[string][]byte
	defer func() {
		if snap != nil {
			snap.Release()
		}
	}()
	rep := func(upto int) interface{} {
		var o []string
		for _, i := range seq[:upto] {
			o = append(o, ops[i].String())
		}
		return map[string]interface{}{"stack": st.name, "prefilled": prefilled, "ops": o}
	}
	fail := func(i int, kind, msg string) bool {
		c.Violation(st.name+"/"+kind, rep(i+1), "%s after %v: %s", st.name, rep(i + 1).(map[string]interface{})["ops"], msg)
		return false
	}
	for i, oi := range seq {
		o := ops[oi]
		switch o.Kind {
		case "put":
			if err := s.Put([]byte(o.K), []byte(o.V)); err != nil {
				return fail(i, "put", "Put error "+err.Error())
			}
			model[o.K] = []byte(o.V)
		case "del":
			if err := s.Delete([]byte(o.K)); err != nil {
				return fail(i, "del", "Delete error "+err.Error())
			}
			delete(model, o.K)
		case "batch":
			b := s.NewBatch()
			var want []string
			size := 0
			for _, w := range o.B {
				if w.Kind == "put" {
					b.Put([]byte(w.K), []byte(w.V))
					model[w.K] = []byte(w.V)
					size += len(w.K) + len(w.V)
				} else {
					b.Delete([]byte(w.K))
					delete(model, w.K)
					size += len(w.K)
				}
				want = append(want, w.String())
			}
			var r recorder
			if err := b.Replay(&r); err != nil || fmt.Sprint(r.ops) != fmt.Sprint(want) {
				return fail(i, "batch-replay", fmt.Sprintf("batch Replay gave %v (err %v), want %v", r.ops, err, want))
			}
			if err := b.Write(); err != nil {
				return fail(i, "batch", "batch Write error "+err.Error())
			}
			b.Reset()
			var r2 recorder
			b.Replay(&r2)
			if len(r2.ops) != 0 || b.ValueSize() != 0 {
				return fail(i, "batch-reset", fmt.Sprintf("batch not empty after Reset: %v size %d", r2.ops, b.ValueSize()))
			}
		case "snap":
			if snap != nil {
				snap.Release()
			}
			var err error
			snap, err = s.GetSnapshot()
			if err != nil {
				return fail(i, "snap", "GetSnapshot error "+err.Error())
			}
			snapModel = map[string][]byte{}
			for k, v := range model {
				snapModel[k] = v
			}
		case "flush":
			if flush != nil {
				if err := flush(); err != nil {
					return fail(i, "flush", "Flush error "+err.Error())
				}
			}
		}
	}
	if msg := observe("store", s, model); msg != "" {
		return fail(len(seq)-1, ops[seq[len(seq)-1]].Kind, msg)
	}
	if snap != nil {
		if msg := observe("snapshot", snap, snapModel); msg != "" {
			return fail(len(seq)-1, "snapshot", msg)
		}
	}
	return true
}

func main() {
	c := core.New("C23", "exploration")
	quick := c.Quick()
	depth := 3
	keys := []string{"a", "ab", "a\xff", "\xff"}
	if !quick {
		depth = 4
		keys = []string{"a", "ab", "a\xff", "\xff", "\x01\xff"}
	}
	c.Set("depth_bound", depth)
	allKeys = keys
	probeKeys = append(append([]string{}, keys...), "a\x00", "b", "\xff\xff", "\x01", "\x02", "\x01\xff")
	prefixes = [][]byte{nil, {}, []byte("a"), []byte("a\xff"), {0xff}, {0x01, 0xff}, []byte("b")}
	starts = [][]byte{nil, {}, []byte("a"), {0xff}, {0x00}, []byte("b")}
	var ops []op
	for _, k := range keys {
		ops = append(ops, op{Kind: "put", K: k, V: "x"}, op{Kind: "put", K: k, V: ""}, op{Kind: "del", K: k})
	}
	ops = append(ops,
		op{Kind: "batch", B: []op{{Kind: "put", K: "a", V: "y"}, {Kind: "put", K: "ab", V: ""}}},
		op{Kind: "batch", B: []op{{Kind: "del", K: "a"}, {Kind: "put", K: "a\xff", V: "y"}}},
		op{Kind: "batch", B: []op{{Kind: "put", K: "\xff", V: ""}, {Kind: "del", K: "\xff"}}},
		op{Kind: "batch", B: nil},
		op{Kind: "snap"}, op{Kind: "flush"})
	c.Set("alphabet_ops", len(ops))

	shard, _ := c.Shard()
	dir, err := os.MkdirTemp("", fmt.Sprintf("verif-c23-%d-", shard))
	if err != nil {
		panic(err)
	}
	defer os.RemoveAll(dir)
	ldb, err := leveldb.New(dir+"/ldb", 16*1024*1024, 16, nil, nil)
	if err != nil {
		panic(err)
	}
	pdb, err := pebble.New(dir+"/pdb", 16*1024*1024, 16, nil, nil)
	if err != nil {
		panic(err)
	}
	backends := []struct {
		name string
		s    kvdb.Store
	}{{"memorydb", memorydb.New()}, {"leveldb", ldb}, {"pebble", pdb}}
	var stacks []*stack
	for _, b := range backends {
		b := b
		stacks = append(stacks,
			&stack{name: b.name, base: b.s, top: func(x kvdb.Store) (kvdb.Store, func() error) { return x, nil }},
			&stack{name: "table(" + b.name + ")", base: b.s, top: func(x kvdb.Store) (kvdb.Store, func() error) {
				// a prefix slice with spare capacity (append-built, as callers do): the table must not write into it
				return table.New(x, append(make([]byte, 0, 16), 't')), nil
			}},
			&stack{name: "table\\xff(" + b.name + ")", base: b.s, top: func(x kvdb.Store) (kvdb.Store, func() error) { return table.New(x, []byte{0x01, 0xff}), nil }},
			&stack{name: "flushable(" + b.name + ")", base: b.s, top: func(x kvdb.Store) (kvdb.Store, func() error) {
				f := flushable.Wrap(x)
				return f, f.Flush
			}},
			&stack{name: "synced(" + b.name + ")", base: b.s, top: func(x kvdb.Store) (kvdb.Store, func() error) { return synced.WrapStore(x, new(sync.RWMutex)), nil }},
			&stack{name: "table(flushable(" + b.name + "))", base: b.s, top: func(x kvdb.Store) (kvdb.Store, func() error) {
				f := flushable.Wrap(x)
				return table.New(f, []byte("a")), f.Flush
			}},
			&stack{name: "flushable(table(" + b.name + "))", base: b.s, top: func(x kvdb.Store) (kvdb.Store, func() error) {
				f := flushable.Wrap(table.New(x, []byte{0xff}))
				return f, f.Flush
			}},
		)
	}
	// work items: (stack, first op); each worker owns its own on-disk databases
	type item struct{ si, a int }
	var items []item
	for si := range stacks {
		for a := range ops {
			items = append(items, item{si, a})
		}
	}
	c.Parallel(len(items), func(ii int) {
		it := items[ii]
		st := stacks[it.si]
		seq := []int{it.a}
		var n, ok int64
		var rec func()
		rec = func() {
			n++
			if !run(c, st, ops, seq, false) {
				return
			}
			ok++
			if len(seq) < depth || !quick { // quick: the prefilled start one level shallower
				n++
				if !run(c, st, ops, seq, true) {
					return
				}
				ok++
			}
			if len(seq) == depth {
				return
			}
			for o := range ops {
				seq = append(seq, o)
				rec()
				seq = seq[:len(seq)-1]
			}
		}
		rec()
		c.Count("evaluations", n)
		c.Count("distinct_nontrivial", ok)
		c.Count("sequences:"+st.name, n)
		if ii%97 == 0 {
			c.Sample(map[string]interface{}{"stack": st.name, "first_op": ops[it.a].String(), "depth": depth})
		}
	})
	ldb.Close()
	pdb.Close()
	c.Set("exhaustive", !c.Capped())
	c.Set("rule", "every sequence of length 1..depth_bound over the op alphabet, per stack; a case = (stack, sequence); all are distinct by construction; non-trivial = sequences whose results all matched up to the final full observation (counted), i.e. excluding runs cut short by a violation")
	c.Assume("LevelDB/Pebble run as real libraries on a real file system in a scratch directory (removed afterwards); their background compaction is not under control - only the sequential map semantics is claimed")
	c.Finish()
}
