// C17: the stream seeder serves each session in order, once, within limits.
//
// The real BaseSeeder (reader loop, sender workers, channels, select, the pending-size spin on
// virtual time) runs on the controlled scheduler.  A driver thread issues every script up to a
// length bound over requests (4 session ids with their own ranges, several chunk/limit shapes, a
// selector mismatch, too many chunks, a second peer), unregistrations and a gate that blocks
// SendChunk (to fill the pending-response budget); between script steps it waits until the seeder
// has nothing left to do, so the order in which the reader consumes the operations is the script
// order and a small session-table model defines the session incarnations.  All schedules within
// the deviation bound (select arms, sender interleavings, preemptions, timers) are explored.
//
// Monitors per session incarnation: concatenated payloads are the items of [start, stop) in order,
// without gap or repeat; non-final chunks are non-empty and hold at most limit+1 items; exactly
// one Done response, nothing after it, and Done only when the range is complete; a request that
// does not finish the session uses all its chunks; sessions stay resumable as the model says
// (a wrongly dropped session restarts from its start = repeat); pending response memory never
// exceeds the limit by more than one response.
package main

import (
	"fmt"
	"strings"
	"time"

	"github.com/Fantom-foundation/lachesis-base/gossip/basestream"
	"github.com/Fantom-foundation/lachesis-base/gossip/basestream/basestreamseeder"
	"verif/core"
	"verif/mc/sched"
)

const nItems = 6
const itemSize = 10
const itemMem = 16

type loc int

func (l loc) Compare(b basestream.Locator) int {
	o := b.(loc)
	switch {
	case l < o:
		return -1
	case l > o:
		return 1
	}
	return 0
}
func (l loc) Inc() basestream.Locator { return l + 1 }

type payload struct{ items []int }

func (p *payload) Len() int          { return len(p.items) }
func (p *payload) TotalSize() uint64 { return uint64(len(p.items) * itemSize) }
func (p *payload) TotalMemSize() int { return len(p.items)*itemMem + 8 }

// session geometry per session id
var sessStart = map[uint32]int{1: 0, 2: 1, 3: 0, 4: 2}
var sessStop = map[uint32]int{1: 5, 2: 5, 3: 3, 4: 100}

type opKind int

const (
	oReq opKind = iota
	oUnreg
	oGateClose
	oGateOpen
)

type op struct {
	K        opKind
	Peer     string
	SID      uint32
	MaxNum   uint32
	MaxSize  uint64
	Chunks   uint32
	Mismatch bool
}

func (o op) String() string {
	switch o.K {
	case oReq:
		mm := ""
		if o.Mismatch {
			mm = ",other-start"
		}
		return fmt.Sprintf("req(%s,s%d,num=%d,size=%d,chunks=%d%s)", o.Peer, o.SID, o.MaxNum, o.MaxSize, o.Chunks, mm)
	case oUnreg:
		return "unregister(" + o.Peer + ")"
	case oGateClose:
		return "block-sends"
	}
	return "unblock-sends"
}

type program struct {
	Senders int
	Script  []op
}

func (p program) String() string {
	var s []string
	for _, o := range p.Script {
		s = append(s, o.String())
	}
	return fmt.Sprintf("senders=%d [%s]", p.Senders, strings.Join(s, " "))
}

const (
	cfgMaxChunks  = 4
	cfgMaxNum     = 3
	cfgMaxSize    = 1000
	cfgMaxPending = 2*itemMem + 8 + 1
)

// incarnation of a session in the reference session table
type incarnation struct {
	peer      string
	sid       uint32
	start     int
	stop      int
	maxNumMin uint32 // for the per-chunk bound we remember each request's limits
	allowance int    // chunks granted by accepted requests
	reqs      []op
	items     []int
	resps     int
	done      int
	doneAt    int
	live      bool
}

func body(p program) func() {
	return func() {
		var (
			sd         *basestreamseeder.BaseSeeder
			gateClosed bool
			table      = map[string][]*incarnation{} // peer -> live incarnations, oldest first
			all        []*incarnation
			byKey      = map[string]*incarnation{} // peer/sid -> current incarnation (live or last)
			misb       int
			maxResp    = cfgMaxNum*itemMem + 8
		)
		find := func(peer string, sid uint32) *incarnation {
			for _, in := range table[peer] {
				if in.sid == sid {
					return in
				}
			}
			return nil
		}
		sendChunk := func(peer string) func(basestream.Response) error {
			return func(r basestream.Response) error {
				if pend := sd.VerifPending(); pend > cfgMaxPending+int64(maxResp) {
					sched.Fail("pending-over-limit: pending response memory %d exceeds the limit %d by more than one response (%d)", pend, cfgMaxPending, maxResp)
				}
				if gateClosed {
					sched.Block("send gate", func() bool { return !gateClosed })
				}
				in := byKey[fmt.Sprintf("%s/%d", peer, r.SessionID)]
				pl := r.Payload.(*payload)
				sched.Logf("send(%s,s%d,%v,done=%v)", peer, r.SessionID, pl.items, r.Done)
				if in == nil {
					sched.Fail("unknown-session: response for %s/s%d which was never requested", peer, r.SessionID)
				}
				if in.done > 0 {
					sched.Fail("sent-after-done: response %v for %s/s%d after its Done response", pl.items, peer, r.SessionID)
				}
				for _, it := range pl.items {
					want := in.start + len(in.items)
					if it != want {
						kind := "gap-or-disorder"
						if it < want {
							kind = "repeat"
						}
						sched.Fail("%s: session %s/s%d (items so far %v) received item %d, expected %d", kind, peer, r.SessionID, in.items, it, want)
					}
					if it >= in.stop || it >= nItems {
						sched.Fail("beyond-stop: session %s/s%d [%d,%d) received item %d", peer, r.SessionID, in.start, in.stop, it)
					}
					in.items = append(in.items, it)
				}
				in.resps++
				if len(pl.items) > cfgMaxNum+1 {
					sched.Fail("chunk-too-large: chunk with %d items exceeds the configured maximum %d by more than one", len(pl.items), cfgMaxNum)
				}
				// the request limits: every accepted request of this incarnation had its own limits; a chunk must
				// respect the loosest of them +1 (responses are not attributed to single requests)
				var loosestNum uint32
				var loosestSize uint64
				for _, rq := range in.reqs {
					if rq.MaxNum > loosestNum {
						loosestNum = rq.MaxNum
					}
					if rq.MaxSize > loosestSize {
						loosestSize = rq.MaxSize
					}
				}
				if uint32(len(pl.items)) > loosestNum+1 && uint64(len(pl.items)*itemSize) > loosestSize+itemSize {
					sched.Fail("chunk-over-request-limit: chunk %v exceeds both the item-count limit %d and the size limit %d of every request of the session by more than one item", pl.items, loosestNum, loosestSize)
				}
				if uint32(len(pl.items)) > loosestNum+1 {
					sched.Fail("chunk-over-request-limit: chunk %v exceeds the requested item-count limit %d by more than one item", pl.items, loosestNum)
				}
				if uint64(len(pl.items)*itemSize) > loosestSize+itemSize {
					sched.Fail("chunk-over-request-limit: chunk %v (%d bytes) exceeds the requested size limit %d by more than one item", pl.items, len(pl.items)*itemSize, loosestSize)
				}
				end := in.stop
				if end > nItems {
					end = nItems
				}
				if r.Done {
					in.done++
					if in.start+len(in.items) < end {
						sched.Fail("done-too-early: Done for %s/s%d after items %v, the range [%d,%d) is not complete", peer, r.SessionID, in.items, in.start, end)
					}
				} else if len(pl.items) == 0 {
					sched.Fail("empty-chunk: a non-final response without items for %s/s%d", peer, r.SessionID)
				}
				return nil
			}
		}
		sd = basestreamseeder.New(basestreamseeder.Config{SenderThreads: p.Senders, MaxSenderTasks: 2, MaxPendingResponsesSize: cfgMaxPending,
			MaxResponsePayloadNum: cfgMaxNum, MaxResponsePayloadSize: cfgMaxSize, MaxResponseChunks: cfgMaxChunks},
			basestreamseeder.Callbacks{ForEachItem: func(start basestream.Locator, rType basestream.RequestType, onKey func(basestream.Locator) bool, onAppended func(basestream.Payload) bool) basestream.Payload {
				pl := &payload{}
				for k := int(start.(loc)); k < nItems; k++ {
					if !onKey(loc(k)) {
						break
					}
					pl.items = append(pl.items, k)
					if !onAppended(pl) {
						break
					}
				}
				return pl
			}})
		sd.Start()
		for _, o := range p.Script {
			switch o.K {
			case oGateClose:
				gateClosed = true
			case oGateOpen:
				gateClosed = false
			case oUnreg:
				if err := sd.UnregisterPeer(o.Peer); err != nil {
					sched.Fail("api-error: UnregisterPeer: %v", err)
				}
				for _, in := range table[o.Peer] {
					in.live = false
				}
				delete(table, o.Peer)
			case oReq:
				start := sessStart[o.SID]
				if o.Mismatch {
					start++
				}
				peer := basestreamseeder.Peer{ID: o.Peer, SendChunk: sendChunk(o.Peer), Misbehaviour: func(err error) { misb++; sched.Logf("misbehaviour(%v)", err) }}
				rq := basestream.Request{Session: basestream.Session{ID: o.SID, Start: loc(start), Stop: loc(sessStop[o.SID])}, MaxPayloadNum: o.MaxNum, MaxPayloadSize: o.MaxSize, MaxChunks: o.Chunks}
				// reference session table
				wantPeerErr := o.Chunks > cfgMaxChunks
				wantMisb := misb
				if !wantPeerErr {
					in := find(o.Peer, o.SID)
					if in == nil {
						if len(table[o.Peer]) == 3 {
							table[o.Peer][0].live = false
							table[o.Peer] = table[o.Peer][1:]
						}
						in = &incarnation{peer: o.Peer, sid: o.SID, start: start, stop: sessStop[o.SID], live: true}
						table[o.Peer] = append(table[o.Peer], in)
						all = append(all, in)
						byKey[fmt.Sprintf("%s/%d", o.Peer, o.SID)] = in
					}
					if in.start != start {
						wantMisb++
					} else {
						eff := o
						if eff.MaxNum > cfgMaxNum {
							eff.MaxNum = cfgMaxNum
						}
						if eff.MaxSize > cfgMaxSize {
							eff.MaxSize = cfgMaxSize
						}
						in.reqs = append(in.reqs, eff)
						in.allowance += int(o.Chunks)
					}
				}
				err, peerErr := sd.NotifyRequestReceived(peer, rq)
				if err != nil {
					sched.Fail("api-error: NotifyRequestReceived: %v", err)
				}
				if (peerErr != nil) != wantPeerErr {
					sched.Fail("peer-error: request with %d chunks (max %d): peer error %v", o.Chunks, cfgMaxChunks, peerErr)
				}
				if gateClosed {
					// the reader may be spinning on the pending budget: give it time instead of waiting for quiescence
					sleep(35 * time.Millisecond)
					continue
				}
				sched.Quiesce()
				if misb != wantMisb {
					sched.Fail("misbehaviour-report: %d selector-mismatch reports, expected %d", misb, wantMisb)
				}
				continue
			}
			if !gateClosed {
				sched.Quiesce()
			}
		}
		gateClosed = false
		sched.Quiesce()
		for _, in := range all {
			end := in.stop
			if end > nItems {
				end = nItems
			}
			complete := in.start+len(in.items) >= end
			switch {
			case in.done > 1:
				sched.Fail("done-twice: %d Done responses for %s/s%d", in.done, in.peer, in.sid)
			case in.done == 0 && in.resps < in.allowance && in.live:
				sched.Fail("chunks-missing: session %s/s%d was granted %d chunks in total, is not done, but only %d responses were sent (items %v)", in.peer, in.sid, in.allowance, in.resps, in.items)
			case in.done == 0 && in.resps < in.allowance && !in.live && !complete:
				// dropped by unregister / a fourth session: responses already produced before the drop must still be all there
				// (the drop happened at a later script step, after quiescence)
				sched.Fail("chunks-missing: session %s/s%d (dropped later) was granted %d chunks, is not done, but only %d responses were sent (items %v)", in.peer, in.sid, in.allowance, in.resps, in.items)
			case in.resps > in.allowance:
				sched.Fail("too-many-responses: session %s/s%d was granted %d chunks but %d responses were sent", in.peer, in.sid, in.allowance, in.resps)
			}
		}
		if pend := sd.VerifPending(); pend != 0 {
			sched.Fail("pending-not-zero: pending response memory is %d after everything was sent", pend)
		}
		sd.Stop()
	}
}

func sleep(d time.Duration) {
	woken := false
	sched.AddTimer(sched.Now().Add(d), func() { woken = true })
	sched.Block("harness sleep", func() bool { return woken })
}

func sigOf(f string) string {
	if i := strings.Index(f, ":"); i > 0 && i < 60 {
		return f[:i]
	}
	return "failure"
}

type replay struct {
	Program program
	Choices []int
}

func alphabet(full bool) []op {
	var a []op
	for sid := uint32(1); sid <= 4; sid++ {
		a = append(a, op{K: oReq, Peer: "p", SID: sid, MaxNum: 1, MaxSize: 1 << 40, Chunks: 1})
		a = append(a, op{K: oReq, Peer: "p", SID: sid, MaxNum: 100, MaxSize: 1 << 40, Chunks: 1})
		if full {
			a = append(a, op{K: oReq, Peer: "p", SID: sid, MaxNum: 2, MaxSize: 1 << 40, Chunks: 2})
			a = append(a, op{K: oReq, Peer: "p", SID: sid, MaxNum: 100, MaxSize: 15, Chunks: 1})
		}
	}
	a = append(a, op{K: oUnreg, Peer: "p"})
	a = append(a, op{K: oReq, Peer: "p", SID: 1, MaxNum: 1, MaxSize: 1 << 40, Chunks: 1, Mismatch: true})
	a = append(a, op{K: oReq, Peer: "p", SID: 2, MaxNum: 0, MaxSize: 1 << 40, Chunks: 4})
	if full {
		a = append(a, op{K: oReq, Peer: "p", SID: 1, MaxNum: 1, MaxSize: 1 << 40, Chunks: 5})
		a = append(a, op{K: oReq, Peer: "p", SID: 3, MaxNum: 1, MaxSize: 1 << 40, Chunks: 0})
		a = append(a, op{K: oReq, Peer: "q", SID: 1, MaxNum: 1, MaxSize: 1 << 40, Chunks: 1})
		a = append(a, op{K: oReq, Peer: "q", SID: 1, MaxNum: 2, MaxSize: 0, Chunks: 2})
		a = append(a, op{K: oUnreg, Peer: "q"})
	}
	return a
}

func main() {
	c := core.New("C17", "exploration")
	if c.Replay != "" {
		var rp replay
		if err := c.LoadReplay(&rp); err != nil {
			fmt.Println(err)
			c.Finish()
		}
		fmt.Println(rp.Program)
		r := sched.Run(rp.Choices, 20000, true, body(rp.Program))
		for _, l := range r.Trace {
			fmt.Println("  ", l)
		}
		fmt.Println("log:", strings.Join(r.Log, " | "))
		if r.Failure != "" {
			c.Violation(sigOf(r.Failure), rp, "%s", r.Failure)
		}
		c.Finish()
	}
	quick := c.Quick()
	var progs []program
	// (1) long scripts over the reduced alphabet, one sender
	a := alphabet(false)
	depth := 5
	var gen func(cur []op, al []op, d int, senders int)
	gen = func(cur []op, al []op, d int, senders int) {
		if len(cur) > 0 {
			progs = append(progs, program{senders, append([]op{}, cur...)})
		}
		if len(cur) == d {
			return
		}
		for _, o := range al {
			gen(append(cur, o), al, d, senders)
		}
	}
	gen(nil, a, depth, 1)
	nLong := len(progs)
	// (2) shorter scripts over the full alphabet, two senders, with the send gate
	fa := alphabet(true)
	d2 := 2
	if !quick {
		d2 = 3
	}
	var gated []program
	var gen2 func(cur []op)
	gen2 = func(cur []op) {
		if len(cur) > 0 {
			gated = append(gated, program{2, append([]op{}, cur...)})
			// the same script with sends blocked during its first requests
			for cut := 1; cut <= len(cur) && cut <= 3; cut++ {
				ok := true
				for _, o := range cur[:cut] {
					ok = ok && o.K == oReq
				}
				if ok {
					s := append([]op{{K: oGateClose}}, cur[:cut]...)
					s = append(s, op{K: oGateOpen})
					s = append(s, cur[cut:]...)
					gated = append(gated, program{2, s}, program{1, s})
				}
			}
		}
		if len(cur) == d2 {
			return
		}
		for _, o := range fa {
			gen2(append(cur, o))
		}
	}
	gen2(nil)
	// (3) depth-4 scripts over a small two-session alphabet, two senders, sends blocked during a prefix:
	// several responses of different sessions are in flight at once on different sender threads
	small := []op{
		{K: oReq, Peer: "p", SID: 1, MaxNum: 1, MaxSize: 1 << 40, Chunks: 1},
		{K: oReq, Peer: "p", SID: 2, MaxNum: 1, MaxSize: 1 << 40, Chunks: 1},
		{K: oReq, Peer: "p", SID: 1, MaxNum: 2, MaxSize: 1 << 40, Chunks: 2},
		{K: oReq, Peer: "q", SID: 1, MaxNum: 1, MaxSize: 1 << 40, Chunks: 1},
		{K: oUnreg, Peer: "p"},
	}
	fa, d2 = small, 4
	if quick {
		d2 = 3
	}
	gen2(nil)
	// (4) depth-6 scripts over three single-chunk sessions and unregister: session ids re-used after the peer
	// unregistered and reconnected
	reuse := []op{
		{K: oReq, Peer: "p", SID: 1, MaxNum: 1, MaxSize: 1 << 40, Chunks: 1},
		{K: oReq, Peer: "p", SID: 2, MaxNum: 1, MaxSize: 1 << 40, Chunks: 1},
		{K: oReq, Peer: "p", SID: 3, MaxNum: 1, MaxSize: 1 << 40, Chunks: 1},
		{K: oUnreg, Peer: "p"},
	}
	d6 := 6
	if !quick {
		d6 = 7
	}
	gen(nil, reuse, d6, 1)
	nLong = len(progs)
	fa, d2 = alphabet(true), 2
	if !quick {
		d2 = 3
	}
	progs = append(progs, gated...)
	c.Set("programs_total", len(progs))
	c.Set("long_scripts", nLong)
	c.Parallel(len(progs), func(i int) {
		p := progs[i]
		bound := 1
		if i < nLong {
			bound = 0
			if !quick {
				bound = 1
			}
		} else if !quick && len(p.Script) <= 2 {
			bound = 2
		}
		e := &sched.Explorer{Bound: bound, MaxSteps: 20000, Body: body(p), VerifyEvery: 499, Stop: c.OutOfBudget}
		logs := map[string]bool{}
		e.Check = func(r sched.Result) bool {
			if r.Failure != "" {
				c.Violation(sigOf(r.Failure), replay{p, r.Choices}, "%s\n  program: %s\n  schedule: %v\n  log: %s", r.Failure, p, r.Choices, strings.Join(r.Log, " | "))
				return false
			}
			logs[strings.Join(r.Log, "|")] = true
			return true
		}
		e.Run()
		c.Count("evaluations", e.Execs)
		c.Count("scheduling_points", e.Points)
		c.Count("distinct_nontrivial", int64(len(logs)))
		c.Count("programs", 1)
		if len(logs) > 1 {
			c.Count("programs_with_several_outcomes", 1)
		}
	})
	if c.Lead() {
		c.Set("rule", "evaluations = complete executions (one schedule of one script on virtual time); distinct_nontrivial = distinct response logs per script")
		c.Set("script_depth_reduced_alphabet", depth)
		c.Set("script_depth_full_alphabet", d2)
		c.Sample(map[string]interface{}{"program": progs[nLong/2].String()})
		c.Sample(map[string]interface{}{"program": progs[len(progs)-5].String()})
		c.Assume("the driver waits for quiescence between script steps, so the reader loop consumes operations in script order; concurrency explored = reader loop vs. sender workers vs. the pending-budget spin vs. select arms")
		c.Assume("items 0..5 of 10 bytes; session ranges s1=[0,5) s2=[1,5) s3=[0,3) s4=[2,100)")
		c.Set("exhaustive", true)
	}
	c.Finish()
}
