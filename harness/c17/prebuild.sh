#!/bin/bash
set -e
cd /verif
export GOFLAGS=-mod=mod GOPROXY=off GOSUMDB=off GOTOOLCHAIN=local
go build -o .work/bin/instrument ./tools/instrument
.work/bin/instrument -repo /repo -out /verif/.work/c17 -pkgs gossip/basestream/basestreamseeder,utils/workers -add gossip/basestream/basestreamseeder=/verif/harness/c17/peek.go.txt
