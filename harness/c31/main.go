// C31: piecewise-linear functions interpolate within rounding.
// (i) small-scope exhaustive: all dot lists of length 0-3 over coordinates 0..6 (valid and
// invalid) x all x in 0..7; (ii) boundary product over range extremes; (iii) rounding sweep over
// every x of a segment.  Reference: exact integer/rational arithmetic in math/big.
package main

import (
	"fmt"
	"math"
	"math/big"

	"github.com/Fantom-foundation/lachesis-base/utils/piecefunc"
	"verif/core"
)

const unit = 1000000
const maxCoord = math.MaxUint64/unit - 1 // supported coordinate range (re-derived, the package constant is unexported)

func valid(d []piecefunc.Dot) bool {
	if len(d) < 2 {
		return false
	}
	for i, p := range d {
		if p.X > maxCoord || p.Y > maxCoord {
			return false
		}
		if i > 0 && p.X <= d[i-1].X {
			return false
		}
	}
	return true
}

var bUnit = big.NewInt(unit)

// check one (dots, x) against the statement; dots must be valid.
func checkPoint(c *core.Ctx, dots []piecefunc.Dot, f func(uint64) uint64, x uint64) (interior bool) {
	var got uint64
	if pv := core.Catch(func() { got = f(x) }); pv != nil {
		c.Violation("get-panic", rep(dots, x), "f(%d) panicked for dots %v: %v", x, dots, pv)
		return
	}
	n := len(dots)
	bad := func(sig, format string, a ...interface{}) {
		c.Violation(sig, rep(dots, x), "dots=%v x=%d f(x)=%d: %s", dots, x, got, fmt.Sprintf(format, a...))
	}
	if x < dots[0].X {
		if got != dots[0].Y {
			bad("plateau-before", "want first Y %d", dots[0].Y)
		}
		return
	}
	if x > dots[n-1].X {
		if got != dots[n-1].Y {
			bad("plateau-after", "want last Y %d", dots[n-1].Y)
		}
		return
	}
	for i := range dots {
		if dots[i].X == x {
			if got != dots[i].Y {
				bad("exact-at-dot", "want %d", dots[i].Y)
			}
			return
		}
	}
	i := 0
	for dots[i+1].X < x {
		i++
	}
	x0, x1, y0, y1 := dots[i].X, dots[i+1].X, dots[i].Y, dots[i+1].Y
	lo, hi := y0, y1
	if lo > hi {
		lo, hi = hi, lo
	}
	if got > hi {
		bad("above-max", "exceeds the larger neighbour %d", hi)
	}
	if lo > 0 && got < lo-1 {
		bad("below-min-1", "below the smaller neighbour %d minus one", lo)
	}
	// |got - exact| <= |dY|/1e6 + 2, exact = y0 + (y1-y0)(x-x0)/(x1-x0); multiply through by dX*1e6
	dX := new(big.Int).SetUint64(x1 - x0)
	num := new(big.Int).Mul(new(big.Int).Sub(new(big.Int).SetUint64(y1), new(big.Int).SetUint64(y0)), new(big.Int).SetUint64(x-x0))
	num.Add(num, new(big.Int).Mul(new(big.Int).SetUint64(y0), dX)) // exact * dX
	diff := new(big.Int).Sub(new(big.Int).Mul(new(big.Int).SetUint64(got), dX), num)
	diff.Abs(diff).Mul(diff, bUnit)
	tol := new(big.Int).SetUint64(hi - lo)
	tol.Add(tol, big.NewInt(2*unit)).Mul(tol, dX)
	if diff.Cmp(tol) > 0 {
		bad("beyond-tolerance", "further than |dY|/1e6+2 from the exact interpolation (segment (%d,%d)-(%d,%d))", x0, y0, x1, y1)
	}
	// "no overflow": equals the same formula evaluated in unbounded integers
	ratio := new(big.Int).Div(new(big.Int).Mul(new(big.Int).SetUint64(x-x0), bUnit), dX)
	a := new(big.Int).Div(new(big.Int).Mul(new(big.Int).SetUint64(y0), new(big.Int).Sub(bUnit, ratio)), bUnit)
	b := new(big.Int).Div(new(big.Int).Mul(new(big.Int).SetUint64(y1), ratio), bUnit)
	if a.Add(a, b); !a.IsUint64() || a.Uint64() != got {
		// not by itself a violation of the statement unless one of the bounds above fails; record as coverage only
		c.Count("formula_mismatch_within_bounds", 1)
	}
	return true
}

func rep(dots []piecefunc.Dot, x uint64) map[string]interface{} {
	return map[string]interface{}{"dots": dots, "x": x}
}

func build(c *core.Ctx, dots []piecefunc.Dot) func(uint64) uint64 {
	var f func(uint64) uint64
	cp := append([]piecefunc.Dot{}, dots...)
	pv := core.Catch(func() { f = piecefunc.NewFunc(cp) })
	v := valid(dots)
	if v && pv != nil {
		c.Violation("valid-rejected", rep(dots, 0), "valid dot list %v rejected: %v", dots, pv)
		return nil
	}
	if !v && pv == nil {
		c.Violation("invalid-accepted", rep(dots, 0), "invalid dot list %v accepted", dots)
		return nil
	}
	if !v {
		c.Count("rejected_lists", 1)
		return nil
	}
	return f
}

func main() {
	c := core.New("C31", "exploration")
	c.Set("rule", "(i) all dot lists of length 0..3 with X,Y in 0..6 x all x in 0..7; (ii) all dot lists of length 2..3 over the boundary coordinate alphabet x boundary x values; (iii) every x of segments with the stated dX and dY. non-trivial = evaluations strictly inside a segment (interpolated, not plateau or dot)")
	// ---- (i)
	const K = 7
	var small [][]piecefunc.Dot
	small = append(small, nil)
	for a := 0; a < K*K; a++ {
		d1 := piecefunc.Dot{X: uint64(a / K), Y: uint64(a % K)}
		small = append(small, []piecefunc.Dot{d1})
		for b := 0; b < K*K; b++ {
			d2 := piecefunc.Dot{X: uint64(b / K), Y: uint64(b % K)}
			small = append(small, []piecefunc.Dot{d1, d2})
		}
	}
	c.Parallel(len(small), func(i int) {
		lists := [][]piecefunc.Dot{small[i]}
		if len(small[i]) == 2 {
			for b := 0; b < K*K; b++ {
				lists = append(lists, append(append([]piecefunc.Dot{}, small[i]...), piecefunc.Dot{X: uint64(b / K), Y: uint64(b % K)}))
			}
		}
		for _, dots := range lists {
			c.Count("dot_lists", 1)
			f := build(c, dots)
			if f == nil {
				continue
			}
			for x := uint64(0); x <= K; x++ {
				c.Count("evaluations", 1)
				if checkPoint(c, dots, f, x) {
					c.Count("distinct_nontrivial", 1)
				}
			}
		}
	})
	// ---- (ii) boundary product
	coords := []uint64{0, 1, 2, unit - 1, unit, unit + 1, maxCoord - 1, maxCoord, maxCoord + 1, math.MaxUint64}
	var dotsA []piecefunc.Dot
	for _, x := range coords {
		for _, y := range coords {
			dotsA = append(dotsA, piecefunc.Dot{X: x, Y: y})
		}
	}
	nA := len(dotsA)
	c.Parallel(nA*nA, func(i int) {
		base := []piecefunc.Dot{dotsA[i/nA], dotsA[i%nA]}
		lists := [][]piecefunc.Dot{base}
		if !c.Quick() || (base[0].X < base[1].X) {
			for _, d := range dotsA {
				lists = append(lists, append(append([]piecefunc.Dot{}, base...), d))
			}
		}
		for _, dots := range lists {
			c.Count("dot_lists", 1)
			f := build(c, dots)
			if f == nil {
				continue
			}
			xs := []uint64{0, math.MaxUint64, math.MaxUint64 - 1}
			for k, d := range dots {
				xs = append(xs, d.X, d.X+1)
				if d.X > 0 {
					xs = append(xs, d.X-1)
				}
				if k > 0 {
					xs = append(xs, dots[k-1].X+(d.X-dots[k-1].X)/2, dots[k-1].X+(d.X-dots[k-1].X)/3, d.X-(d.X-dots[k-1].X)/unit)
				}
			}
			for _, x := range xs {
				c.Count("evaluations", 1)
				if checkPoint(c, dots, f, x) {
					c.Count("distinct_nontrivial", 1)
				}
			}
		}
	})
	// ---- (iii) rounding sweep: every x of the segment
	dXs := []uint64{1, 2, 3, 7, 1000, unit - 1, unit, unit + 1}
	if !c.Quick() {
		dXs = append(dXs, 2*unit, 3*unit+7)
	}
	dYs := []uint64{0, 1, 2, unit - 1, unit + 1, 123456789, maxCoord}
	x0s := []uint64{0, 5, maxCoord}
	type seg struct{ x0, dx, ya, yb uint64 }
	var segs []seg
	for _, dx := range dXs {
		for _, dy := range dYs {
			for _, x0 := range x0s {
				if x0 == maxCoord {
					x0 = maxCoord - dx
				}
				segs = append(segs, seg{x0, dx, 0, dy}, seg{x0, dx, dy, 0})
				if dy < maxCoord {
					segs = append(segs, seg{x0, dx, maxCoord - dy, maxCoord}, seg{x0, dx, maxCoord, maxCoord - dy}, seg{x0, dx, 7, 7 + dy})
				}
			}
		}
	}
	c.Parallel(len(segs), func(i int) {
		s := segs[i]
		dots := []piecefunc.Dot{{X: s.x0, Y: s.ya}, {X: s.x0 + s.dx, Y: s.yb}}
		f := build(c, dots)
		if f == nil {
			return
		}
		var n, nt int64
		for x := s.x0; ; x++ {
			n++
			if checkPoint(c, dots, f, x) {
				nt++
			}
			if x == s.x0+s.dx {
				break
			}
		}
		c.Count("evaluations", n)
		c.Count("distinct_nontrivial", nt)
		c.Count("sweep_segments", 1)
	})
	c.Set("exhaustive", !c.Capped())
	c.Set("exhaustive_note", "exhaustive over the three stated finite domains; all uint64 x cannot be enumerated")
	c.Sample(rep([]piecefunc.Dot{{X: 0, Y: 6}, {X: 3, Y: 1}, {X: 6, Y: 4}}, 4))
	c.Sample(rep([]piecefunc.Dot{{X: maxCoord - unit, Y: maxCoord}, {X: maxCoord, Y: 0}}, maxCoord-1))
	c.Finish()
}
