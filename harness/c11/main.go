// C11: quorum arithmetic is safe for every validator set.
// Part 1: every total T in [1, 2^31-1] (thorough) through the real constructor and Quorum().
// Part 2: all small validator sets over a boundary weight alphabet, all subsets, and the
// WeightCounter explored as an explicit state machine (all Count/CountByIdx sequences).
package main

import (
	"fmt"
	"math"
	"sort"

	"github.com/ethereum/go-ethereum/rlp"

	"github.com/Fantom-foundation/lachesis-base/inter/idx"
	"github.com/Fantom-foundation/lachesis-base/inter/pos"
	"verif/core"
)

const maxTotal = math.MaxUint32 / 2 // 2^31-1

func checkTotal(c *core.Ctx, T uint64) bool {
	b := pos.NewBuilder()
	b.Set(7, pos.Weight(T))
	vv := b.Build()
	q := uint64(vv.Quorum())
	tot := uint64(vv.TotalWeight())
	want := 2*T/3 + 1
	if tot != T || q != want || q > T || !(2*T/3 < q) || !(3*(2*q-T) > T) {
		c.Violation("quorum-formula", T, "total=%d: TotalWeight=%d Quorum=%d, want %d", T, tot, q, want)
		return false
	}
	return true
}

func main() {
	c := core.New("C11", "exploration")
	c.Set("rule", "part1: one-validator set per total T (Quorum depends on the set only through its total); non-trivial = distinct total. part2: all sets of n<=4 validators over the weight alphabet x all subsets; counter: all call sequences to depth n+2 over Count/CountByIdx")

	// ---- part 1
	var totals [][2]uint64 // inclusive ranges
	if c.Quick() {
		totals = append(totals, [2]uint64{1, 1 << 22})
		add := func(center uint64) {
			lo, hi := int64(center)-4096, int64(center)+4096
			if lo < 1 {
				lo = 1
			}
			if hi > maxTotal {
				hi = maxTotal
			}
			if lo <= hi {
				totals = append(totals, [2]uint64{uint64(lo), uint64(hi)})
			}
		}
		for k := 23; k <= 31; k++ {
			add(1 << uint(k))
			add((1 << uint(k)) / 3)
			add((1 << uint(k)) / 3 * 2)
			add(3 << uint(k-2))
		}
		add(maxTotal)
		add(math.MaxUint32 / 3) // where total*2 would wrap if done in a narrower way
		add(math.MaxUint32/3*2 + 100)
		add(math.MaxUint32 / 4)
	} else {
		totals = append(totals, [2]uint64{1, maxTotal})
	}
	sort.Slice(totals, func(i, j int) bool { return totals[i][0] < totals[j][0] })
	merged := totals[:0:0]
	for _, r := range totals {
		if n := len(merged); n > 0 && r[0] <= merged[n-1][1]+1 {
			if r[1] > merged[n-1][1] {
				merged[n-1][1] = r[1]
			}
		} else {
			merged = append(merged, r)
		}
	}
	totals = merged
	// split into chunks
	type rng struct{ lo, hi uint64 }
	var chunks []rng
	for _, r := range totals {
		for lo := r[0]; lo <= r[1]; lo += 1 << 16 {
			hi := lo + 1<<16 - 1
			if hi > r[1] {
				hi = r[1]
			}
			chunks = append(chunks, rng{lo, hi})
		}
	}
	done := c.Parallel(len(chunks), func(i int) {
		for T := chunks[i].lo; T <= chunks[i].hi; T++ {
			if !checkTotal(c, T) {
				return
			}
		}
		c.Count("evaluations", int64(chunks[i].hi-chunks[i].lo+1))
	})
	// distinct totals = size of the union of the (possibly overlapping) ranges; counted by the parent-side merge
	// through per-chunk counters only when the chunk list is duplicate free, so make it so up front.
	distinctTotals := c.Get("evaluations")
	c.Count("totals_checked", distinctTotals)
	_ = done
	c.Set("part1_all_totals_1_to_2^31-1", !c.Quick() && !c.Capped())

	// totals above the limit must be refused by the constructor
	for _, ws := range [][]uint64{{1 << 31}, {1<<32 - 1}, {1 << 30, 1 << 30}, {1<<31 - 1, 1}, {1<<32 - 1, 1<<32 - 1}, {1<<32 - 1, 2}, {1 << 31, 1 << 31}} {
		p := core.Catch(func() {
			b := pos.NewBuilder()
			for i, w := range ws {
				b.Set(idx.ValidatorID(i+1), pos.Weight(w))
			}
			b.Build()
		})
		if p == nil {
			c.Violation("overflow-accepted", ws, "validator set with weights %v (total above 2^31-1) was accepted", ws)
		}
		c.Count("evaluations", 1)
	}

	// ---- part 2: small sets, all subsets, counter state machine
	alpha := []uint64{1, 2, 3, 1 << 29, 1 << 30, maxTotal / 4, maxTotal/3 + 1}
	var sets [][]uint64
	var rec func(cur []uint64)
	rec = func(cur []uint64) {
		if len(cur) > 0 {
			var t uint64
			for _, w := range cur {
				t += w
			}
			if t <= maxTotal {
				sets = append(sets, append([]uint64{}, cur...))
			}
		}
		if len(cur) == 4 {
			return
		}
		for _, w := range alpha {
			rec(append(cur, w))
		}
	}
	rec(nil)
	sets = append(sets, []uint64{maxTotal}, []uint64{maxTotal - 1, 1}, []uint64{maxTotal - 2, 1, 1}, []uint64{maxTotal / 2, maxTotal/2 + 1})
	c.Parallel(len(sets), func(si int) {
		ws := sets[si]
		n := len(ws)
		b := pos.NewBuilder()
		for i, w := range ws {
			b.Set(idx.ValidatorID(10+i*3), pos.Weight(w))
		}
		vv := b.Build()
		var T uint64
		for _, w := range ws {
			T += w
		}
		q := uint64(vv.Quorum())
		if q != 2*T/3+1 || uint64(vv.TotalWeight()) != T {
			c.Violation("quorum-formula", ws, "weights %v: total=%d quorum=%d", ws, vv.TotalWeight(), q)
			return
		}
		// subsets via the real counter, by index and by id
		sums := make([]uint64, 1<<uint(n))
		has := make([]bool, 1<<uint(n))
		for mask := 0; mask < 1<<uint(n); mask++ {
			cnt := vv.NewCounter()
			var s uint64
			for i := 0; i < n; i++ {
				if mask&(1<<uint(i)) != 0 {
					if mask&1 == 0 {
						cnt.CountByIdx(idx.Validator(i))
					} else {
						cnt.Count(vv.GetID(idx.Validator(i)))
					}
					s += uint64(vv.GetWeightByIdx(idx.Validator(i)))
				}
			}
			sums[mask] = s
			has[mask] = cnt.HasQuorum()
			if uint64(cnt.Sum()) != s {
				c.Violation("counter-sum", ws, "weights %v subset %b: Sum=%d want %d", ws, mask, cnt.Sum(), s)
			}
			if has[mask] != (s >= q) {
				c.Violation("counter-quorum", ws, "weights %v subset %b: HasQuorum=%v sum=%d quorum=%d", ws, mask, has[mask], s, q)
			}
			if 3*s <= 2*T && has[mask] {
				c.Violation("two-thirds-reaches-quorum", ws, "weights %v subset %b of weight %d <= 2T/3 reaches quorum", ws, mask, s)
			}
		}
		c.Count("evaluations", int64(1)<<uint(n))
		if !has[1<<uint(n)-1] {
			c.Violation("whole-set-no-quorum", ws, "weights %v: whole set does not reach quorum", ws)
		}
		for a := 0; a < 1<<uint(n); a++ {
			for b2 := 0; b2 < 1<<uint(n); b2++ {
				if has[a] && has[b2] && !(3*sums[a&b2] > T) {
					c.Violation("quorum-intersection", ws, "weights %v: quorums %b and %b share only %d of %d", ws, a, b2, sums[a&b2], T)
				}
			}
		}
		// counter as explicit state machine: all sequences of calls to depth n+2
		depth := n + 2
		if c.Quick() && n == 4 {
			depth = n + 1
		}
		type call struct {
			byIdx bool
			i     int
		}
		var calls []call
		for i := 0; i < n; i++ {
			calls = append(calls, call{true, i}, call{false, i})
		}
		seq := make([]int, 0, depth)
		var nseq int64
		var walk func()
		walk = func() {
			// replay seq on a fresh counter, check against model at each step
			cnt := vv.NewCounter()
			counted := 0
			var s uint64
			for _, ci := range seq {
				cl := calls[ci]
				var got bool
				if cl.byIdx {
					got = cnt.CountByIdx(idx.Validator(cl.i))
				} else {
					got = cnt.Count(vv.GetID(idx.Validator(cl.i)))
				}
				want := counted&(1<<uint(cl.i)) == 0
				if want {
					counted |= 1 << uint(cl.i)
					s += uint64(vv.GetWeightByIdx(idx.Validator(cl.i)))
				}
				if got != want || uint64(cnt.Sum()) != s || cnt.HasQuorum() != (s >= q) {
					c.Violation("counter-sequence", map[string]interface{}{"weights": ws, "calls": seq}, "weights %v calls %v: got=%v want=%v Sum=%d model=%d HasQuorum=%v", ws, seq, got, want, cnt.Sum(), s, cnt.HasQuorum())
					return
				}
			}
			nseq++
			if len(seq) == depth {
				return
			}
			for ci := range calls {
				seq = append(seq, ci)
				walk()
				seq = seq[:len(seq)-1]
			}
		}
		walk()
		c.Count("counter_sequences", nseq)
		c.Count("evaluations", nseq)

		// the same set reached on other routes: after the next epoch's validators were derived from it (a built set
		// is read-only), and decoded from a wire list that is not in canonical order / lists a validator twice
		// (the last entry wins, as with Set): quorum, total, per-subset quorum test and the whole-set count again
		recheck := func(v2 *pos.Validators, how string) {
			pv := core.Catch(func() {
				if int(v2.Len()) != n || uint64(v2.TotalWeight()) != T || uint64(v2.Quorum()) != 2*T/3+1 {
					c.Violation("quorum-formula/"+how, ws, "weights %v %s: Len=%d total=%d quorum=%d", ws, how, v2.Len(), v2.TotalWeight(), v2.Quorum())
					return
				}
				for i := 0; i < n; i++ {
					if v2.GetID(idx.Validator(i)) != vv.GetID(idx.Validator(i)) || v2.GetWeightByIdx(idx.Validator(i)) != vv.GetWeightByIdx(idx.Validator(i)) || v2.Get(vv.GetID(idx.Validator(i))) != vv.GetWeightByIdx(idx.Validator(i)) {
						c.Violation("canonical-order/"+how, ws, "weights %v %s: position %d holds (%d,%d)", ws, how, i, v2.GetID(idx.Validator(i)), v2.GetWeightByIdx(idx.Validator(i)))
						return
					}
				}
				for mask := 0; mask < 1<<uint(n); mask++ {
					cnt := v2.NewCounter()
					for i := 0; i < n; i++ {
						if mask&(1<<uint(i)) != 0 {
							if mask&1 == 0 {
								cnt.CountByIdx(idx.Validator(i))
							} else {
								cnt.Count(v2.GetID(idx.Validator(i)))
							}
						}
					}
					if uint64(cnt.Sum()) != sums[mask] || cnt.HasQuorum() != has[mask] {
						c.Violation("counter-quorum/"+how, ws, "weights %v %s subset %b: Sum=%d HasQuorum=%v, want %d %v", ws, how, mask, cnt.Sum(), cnt.HasQuorum(), sums[mask], has[mask])
						return
					}
				}
			})
			if pv != nil {
				c.Violation("panic/"+how, ws, "weights %v %s: %v", ws, how, pv)
			}
			c.Count("evaluations", int64(1)<<uint(n))
		}
		for _, src := range []string{"Builder()", "Copy().Builder()"} {
			nb := vv.Builder()
			if src != "Builder()" {
				nb = vv.Copy().Builder()
			}
			nb.Set(vv.GetID(0), 0)
			nb.Set(777, 1)
			core.Catch(func() { nb.Build() })
			recheck(vv, "after deriving the next set through "+src)
		}
		type wire struct {
			ID     idx.ValidatorID
			Weight pos.Weight
		}
		var rev, dup []wire
		for i := n - 1; i >= 0; i-- {
			rev = append(rev, wire{vv.GetID(idx.Validator(i)), vv.GetWeightByIdx(idx.Validator(i))})
		}
		dup = append(dup, wire{vv.GetID(idx.Validator(n - 1)), 1})
		for i := 0; i < n; i++ {
			dup = append(dup, wire{vv.GetID(idx.Validator(i)), vv.GetWeightByIdx(idx.Validator(i))})
		}
		for how, list := range map[string][]wire{"decoded from a reversed wire list": rev, "decoded from a wire list naming a validator twice": dup} {
			enc, err := rlp.EncodeToBytes(list)
			var dec pos.Validators
			if pv := core.Catch(func() {
				if err == nil {
					err = rlp.DecodeBytes(enc, &dec)
				}
			}); pv != nil {
				c.Violation("panic/"+how, ws, "weights %v %s: decoding panicked although the listed set is a valid one: %v", ws, how, pv)
				continue
			}
			if err != nil {
				continue // refusing such a list is fine
			}
			recheck(&dec, how)
		}
		// a counter keeps counting for the set it was created from, even if the set OBJECT is meanwhile overwritten by
		// decoding the next epoch's set into it
		if enc, err := rlp.EncodeToBytes(vv); err == nil {
			var obj pos.Validators
			if rlp.DecodeBytes(enc, &obj) == nil {
				ids := obj.SortedIDs()
				cnt := obj.NewCounter()
				var s uint64
				half := (n + 1) / 2
				for i := 0; i < half; i++ {
					cnt.Count(ids[i])
					s += uint64(vv.GetWeightByIdx(idx.Validator(i)))
				}
				var next []wire
				for i := n - 1; i >= 0; i-- { // other order and other weights (all 1)
					next = append(next, wire{ids[i], 1})
				}
				if enc2, err := rlp.EncodeToBytes(next); err == nil && rlp.DecodeBytes(enc2, &obj) == nil {
					pv := core.Catch(func() {
						for i := half; i < n; i++ {
							cnt.Count(ids[i])
							s += uint64(vv.GetWeightByIdx(idx.Validator(i)))
							if uint64(cnt.Sum()) != s || cnt.HasQuorum() != (s >= q) {
								c.Violation("counter-follows-overwritten-set", ws, "weights %v: a counter created before the set object was overwritten by a decoded set reports Sum=%d HasQuorum=%v after counting %d validators; its own set gives %d / %v", ws, cnt.Sum(), cnt.HasQuorum(), i+1, s, s >= q)
								return
							}
						}
					})
					if pv != nil {
						c.Violation("panic/counter-after-overwrite", ws, "weights %v: counting after the set object was overwritten panicked: %v", ws, pv)
					}
				}
				c.Count("evaluations", 1)
			}
		}
	})
	// part 3: large sets (the counter's "already counted" bookkeeping crosses machine-word boundaries): every
	// pair of calls (i, j) by index and by ID on a fresh counter, and full passes in both directions followed
	// by a second pass; a non-member ID never counts and never disturbs a member
	bigNs := []int{31, 32, 33, 63, 64, 65, 100}
	c.Parallel(len(bigNs), func(k int) {
		n := bigNs[k]
		b := pos.NewBuilder()
		ws := make([]uint64, n)
		var T uint64
		for i := 0; i < n; i++ {
			ws[i] = uint64(1 + (i*7)%5)
			T += ws[i]
			b.Set(idx.ValidatorID(100+i), pos.Weight(ws[i]))
		}
		vv := b.Build()
		q := 2*T/3 + 1
		wOf := func(i int) uint64 { return uint64(vv.GetWeightByIdx(idx.Validator(i))) }
		for i := 0; i < n; i++ {
			for j := 0; j < n; j++ {
				for mode := 0; mode < 4; mode++ {
					cnt := vv.NewCounter()
					call := func(byIdx bool, x int) bool {
						if byIdx {
							return cnt.CountByIdx(idx.Validator(x))
						}
						return cnt.Count(vv.GetID(idx.Validator(x)))
					}
					g1 := call(mode&1 == 0, i)
					g2 := call(mode&2 == 0, j)
					want := wOf(i)
					if j != i {
						want += wOf(j)
					}
					c.Count("evaluations", 1)
					if !g1 || g2 != (j != i) || uint64(cnt.Sum()) != want || cnt.HasQuorum() != (want >= q) {
						c.Violation("counter-large-set", map[string]interface{}{"n": n, "i": i, "j": j, "mode": mode}, "n=%d: counting idx %d then %d (mode %d): results %v %v, Sum=%d want %d", n, i, j, mode, g1, g2, cnt.Sum(), want)
						return
					}
				}
			}
		}
		for _, rev := range []bool{false, true} {
			// a stray Count of a non-member ID first (what it returns is unspecified): counting every member
			// afterwards must still end at the total weight, i.e. the whole set reaches the quorum
			stray := vv.NewCounter()
			stray.Count(idx.ValidatorID(7))
			for x := 0; x < n; x++ {
				i := x
				if rev {
					i = n - 1 - x
				}
				stray.Count(vv.GetID(idx.Validator(i)))
			}
			if uint64(stray.Sum()) != T || !stray.HasQuorum() {
				c.Violation("counter-stray-non-member", n, "n=%d: after a Count of a non-member ID, counting every member ends at Sum=%d (total %d), HasQuorum=%v", n, stray.Sum(), T, stray.HasQuorum())
			}
			cnt := vv.NewCounter()
			var s uint64
			for pass := 0; pass < 2; pass++ {
				for x := 0; x < n; x++ {
					i := x
					if rev {
						i = n - 1 - x
					}
					got := cnt.CountByIdx(idx.Validator(i))
					if pass == 0 {
						s += wOf(i)
					}
					c.Count("evaluations", 1)
					if got != (pass == 0) || uint64(cnt.Sum()) != s || cnt.HasQuorum() != (s >= q) {
						c.Violation("counter-large-set", map[string]interface{}{"n": n, "pass": pass, "i": i}, "n=%d pass %d idx %d: got=%v Sum=%d model=%d HasQuorum=%v (quorum %d)", n, pass, i, got, cnt.Sum(), s, cnt.HasQuorum(), q)
						return
					}
				}
			}
			if s != T {
				c.Violation("counter-large-set", n, "n=%d: whole set counted gives %d, total %d", n, s, T)
			}
		}
	})
	c.Set("sets_part2", len(sets))
	c.Count("distinct_nontrivial", distinctTotals)
	if sh, _ := c.Shard(); sh == 0 {
		c.Count("distinct_nontrivial", int64(len(sets)))
	}
	c.Set("exhaustive", !c.Quick() && !c.Capped())
	sort.Slice(sets, func(i, j int) bool { return len(sets[i]) > len(sets[j]) })
	c.Sample(map[string]interface{}{"total": maxTotal, "quorum": fmt.Sprint(2*uint64(maxTotal)/3 + 1)})
	c.Sample(map[string]interface{}{"weights": sets[0], "checked": "all 16 subsets, all pairs of subsets, all counter call sequences"})
	c.Assume("Quorum() depends on the validator set only through TotalWeight() (it reads the cached total)")
	c.Finish()
}
