#!/bin/bash
# confirm_seed.sh <PROP> <src mutant dir> <pkg dir for demo> <run regex> <seed name>
# Confirms a seeded change in a scratch worktree (build, full suite passes with it, demo fails with it
# and passes without it), then archives it under /verif/seeded/<seed name>/ with meta.json.
set -u
PROP="$1"; SRC="$2"; PKG="$3"; RUN="$4"; NAME="$5"
export GOFLAGS=-mod=mod GOPROXY=off GOSUMDB=off GOTOOLCHAIN=local
WT=/tmp/confirm-$NAME
rm -rf "$WT"; git -C /repo worktree prune; git -C /repo worktree add -q --detach "$WT" HEAD || exit 9
cd "$WT"
demo=$(ls "$SRC"/*_test.go "$SRC"/*.go 2>/dev/null | head -1)
res() { echo "$1" >> "$WT/.confirm.log"; }
git apply "$SRC/patch.diff" || { echo "PATCH-FAILS $NAME"; cd /; git -C /repo worktree remove --force "$WT"; exit 1; }
go build ./... > .b.log 2>&1; b=$?
go test -vet=off -count=1 -timeout 25m ./... > .suite.log 2>&1; s=$?
cp "$demo" "$PKG/zz_demo_test.go"
go test -vet=off -count=1 -run "$RUN" "./$PKG/" > .demo_with.log 2>&1; dw=$?
git apply -R "$SRC/patch.diff"
go test -vet=off -count=1 -run "$RUN" "./$PKG/" > .demo_without.log 2>&1; dwo=$?
ok=false; [ $b -eq 0 ] && [ $s -eq 0 ] && [ $dw -ne 0 ] && [ $dwo -eq 0 ] && ok=true
echo "$NAME build=$b suite=$s demo_with=$dw demo_without=$dwo confirmed=$ok"
if $ok; then
  D=/verif/seeded/$NAME; mkdir -p "$D"
  cp "$SRC/patch.diff" "$D/patch.diff"; cp "$demo" "$D/$(basename $demo)"; [ -f "$SRC/notes.md" ] && cp "$SRC/notes.md" "$D/notes.md"
  python3 - "$PROP" "$NAME" "$PKG" "$RUN" "$D" <<'PY'
import json,sys,re
prop,name,pkg,run,d=sys.argv[1:6]
notes=''
try: notes=open(d+'/notes.md').read()
except: pass
m=re.search(r'(?is)(needs?|manifest|trigger)[^\n]*\n(.{0,600})',notes)
json.dump({"property":prop,"name":name,"needs_to_manifest":"see notes.md (written by the independent sub-agent that produced the change)",
 "demo":{"package_dir":pkg,"run":run},
 "confirmed_by_me":{"where":"scratch git worktree of /repo HEAD","go build ./...":"ok","go test -vet=off -count=1 ./... (with change)":"all pass","demo with change":"FAIL","demo without change":"PASS"},
 "detected_by_check":None},open(d+'/meta.json','w'),indent=1)
PY
fi
cd /; git -C /repo worktree remove --force "$WT"
