# table read by gen_manifest.py
HOOK_COMMITS = []
NA = {}
NOTES = "All checks are bounded-exhaustive explorations of the real code (model checking family); see DESIGN.md. known_findings.txt lists genuine defects (fixed / recorded)."
ENGINES = [
    {"name": "E4-enum", "path": "/verif/harness", "serves_properties": ["C11", "C12", "C13", "C21", "C31", "C32"], "kind_free_text": "bounded-exhaustive input enumeration against a reference predicate"},
]

chk("C32", "exploration", "exhaustive enumeration of all 16/32-bit values (adjacent-pair monotonicity => total order), boundary alphabet for 64-bit and event IDs",
    "Every 16-bit value and pair, every 32-bit value of each encoder (thorough; quick: one encoder fully, the others on a boundary alphabet) is enumerated; round trip and strict monotonicity are checked directly on the real functions.",
    "64-bit values cannot be enumerated: a structured byte alphabet (390k values) is used and reported exhaustive:false. bytes.Compare is the byte-wise order.", "E4; DESIGN §4 C32")
