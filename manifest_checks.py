# table read by gen_manifest.py
HOOK_COMMITS = []
NA = {}
NOTES = "All checks are bounded-exhaustive explorations of the real code (model checking family); see DESIGN.md. known_findings.txt lists genuine defects (fixed / recorded)."
ENGINES = [
    {"name": "E4-enum", "path": "/verif/harness", "serves_properties": ["C11", "C12", "C13", "C21", "C31", "C32"], "kind_free_text": "bounded-exhaustive input enumeration against a reference predicate"},
]

chk("C32", "exploration", "exhaustive enumeration of all 16/32-bit values (adjacent-pair monotonicity => total order), boundary alphabet for 64-bit and event IDs",
    "Every 16-bit value and pair, every 32-bit value of each encoder (thorough; quick: one encoder fully, the others on a boundary alphabet) is enumerated; round trip and strict monotonicity are checked directly on the real functions.",
    "64-bit values cannot be enumerated: a structured byte alphabet (390k values) is used and reported exhaustive:false. bytes.Compare is the byte-wise order.", "E4; DESIGN §4 C32")

chk("C11", "exploration", "exhaustive enumeration of all totals 1..2^31-1 through the real constructor; explicit-state exploration of WeightCounter call sequences",
    "Thorough enumerates every total from 1 to 2^31-1 (quick: all totals <= 2^22 plus windows around every power of two / thirds / the maximum) and checks quorum formula and the three set-theoretic claims in 64-bit arithmetic; all validator sets with n<=4 over a boundary weight alphabet with all subsets and subset pairs; all Count/CountByIdx sequences to depth n+2 against a bitmap model.",
    "Quorum() reads only the cached total weight, so a one-validator set per total exercises it for every total.", "E4; DESIGN §4 C11")
chk("C12", "exploration", "exhaustive enumeration of all Set() sequences (<=4) over a colliding (ID,weight) alphabet, and of all 1-4 big-stake tuples; reference = plain sort",
    "Every insertion order, overwrite and zero-delete of every multiset over the alphabet is executed on the real builder; canonical order, index maps, totals, Copy/Builder, RLP encode/decode fixpoint are compared with a reference computed from the final non-zero pairs only. Big builder: every tuple of boundary stakes up to 2^256.",
    "go-ethereum rlp is trusted as the codec.", "E4; DESIGN §4 C12")
chk("C13", "exploration", "exhaustive product of boundary field values x parent lists against the statement's predicate",
    "Every combination of boundary values for seq/epoch/frame/lamport, epoch match, creator membership and every ordered parent list of length 0-3 (duplicates included) from a parent pool defined relative to the event is validated by the real checkers; accept/reject must equal the predicate transcribed from the property statement.",
    "Parents passed to the checker are the events named by the event's parent IDs.", "E4; DESIGN §4 C13")
chk("C21", "exploration", "exhaustive product of boundary timestamps/thresholds against an exact big-integer reference",
    "All combinations of 11 boundary timestamps (zero time, +-1ns around the threshold, beyond the +-292y Duration range) for the five guarded timestamps x 6 thresholds x peers x 2 Now values; verdict and wait compared with exact nanosecond arithmetic.",
    "Timestamps carry no monotonic reading. One residual finding (negative threshold) is listed in known_findings.txt.", "E4; DESIGN §4 C21")
chk("C31", "exploration", "small-scope exhaustive enumeration of dot lists and inputs plus boundary products and full-segment sweeps against exact big-integer interpolation",
    "All dot lists of length 0-3 over coordinates 0..6 with all x in 0..7; all 2-3 dot lists over the range-extreme alphabet; every x of segments with chosen dX (up to 10^6+1, thorough 3*10^6) and dY; plateau, exactness at dots, min-1 <= f <= max, tolerance |dY|/1e6+2 and rejection of invalid lists are checked on each.",
    "All 2^64 inputs cannot be enumerated; coverage is the three stated finite domains.", "E4; DESIGN §4 C31")

chk("C29", "model_checking", "explicit-state BFS of the full reachable state graph of the real caches (replay shortest path + 1 op) against a list model",
    "States are canonical cache contents (ordered (key,value,weight) list + capacities); every operation of a ~100-op alphabet is executed in every reachable state of both simplewlru.Cache and wlru.Cache from every initial capacity; return values, key order, totals, bounds and the per-operation eviction callbacks are compared with a list model after every step.",
    "Alphabet: 3 keys, 2 values, weights {0,1,2,5}, capacities up to (7,3). Dedup key soundness argued in the evidence file (the cache has no state beyond it).", "E2; DESIGN §7 C29")
chk("C27", "model_checking", "bounded-depth exhaustive enumeration of open/close/drop sequences on the real producers over a counting backend, against a refcount model",
    "Every sequence over {open,close,drop} x {a,b} up to depth 7 (quick) / 9 (thorough) for both Wrap and WrapAll; same-store identity, backend open/close counts per instance at every step, over-close errors and the drop bound are compared with a per-name reference-count model.",
    "Stale handles (all opens closed, name re-opened since) are not re-used: use-after-close is outside the statement.", "E2; DESIGN §7 C27")

chk("C19", "exploration", "exhaustive enumeration of (existing, options, strategy script) over a 5-hash pool; scripted rank strategies cover every possible choice",
    "Every duplicate-free existing list (len 0-2), every options list (len 0-4 incl. duplicates/overlaps) and every vector of 0-3 scripted rank strategies, plus MetricStrategy under every metric assignment from {0,1,2,2^64-1}^5, is run through the real ChooseParents; prefix, count, no-repeat, offered-set and max-metric clauses are checked on each.",
    "Scripted strategy picks by rank among the offered options, so the result is independent of the internal map-order shuffle.", "E4; DESIGN §6 C19")
chk("C22", "model_checking", "model-only BFS of abstract states to a depth bound; every outgoing transition executed on the real Flushable/LazyFlushable (replay shortest path + 1 op) with full observation against the model",
    "Abstract states (underlying contents, overlay with tombstones, live snapshot, open iterator with cursor and life-time view history) reachable within depth 4 (quick) / 6 (thorough) over a colliding key alphabet; every op of a ~40-op alphabet (puts, deletes, 2-write batches incl. Replay/ValueSize, flush, drop, direct underlying writes, snapshot, iterator open/next/release) is executed in every state on the real code over a reference store; Get/Has for all keys, iteration for every (prefix,start) pair, NotFlushedPairs, the underlying store's contents and snapshot reads are compared with the model.",
    "Iterators spanning later writes are held to the weakly-consistent contract only. The reference store ref/kv is the trusted base.", "E2; DESIGN §7 C22")

chk("C24", "model_checking", "BFS over reachable store contents per prefix pair; every table/raw op executed on real Table objects over the reference store; compaction ranges enumerated for all small prefixes",
    "For all 49 prefix pairs over {'',00,a,a ff,ff,ff ff,b} plus nested chains: every sequence (depth 3 quick / 4 thorough, dedup on store contents) of put/delete/batch+replay through two tables, a nested table and the raw store; each table's Get/Has/iteration for every (prefix,start), pre- and post-op snapshots are compared with the prefix-stripped part of the store, and the raw store with the model (writes touch only prefixed keys). Compact(nil,nil)/Compact(s,l) request ranges checked for all prefixes of length <=2 over {00,01,7f,fe,ff} and 3-byte boundary prefixes, plain and nested.",
    "The table wrapper is stateless, so states are store contents. ref/kv is the trusted base.", "E2; DESIGN §7 C24")

chk("C33", "model_checking", "bounded-depth exhaustive enumeration of AddRoot/GetFrameRoots/epoch-switch/restart sequences on the real abft.Store for 16 cache configurations, against a set model",
    "Every sequence up to depth 4 (quick) / 6 (thorough) over 12 AddRoot variants (multi-frame jumps, two events of one creator), 3 queries, epoch switch through Orderer.Reset and restart over the same DBs, for RootsNum in {0,1,2,1000} x RootsFrames in {0,1,2,100}; every query result and a final double query of all frames are compared, as sets of (frame, validator, id), with the model; new epoch => empty.",
    "The LRU inside the store is hidden state, so sequences are not deduplicated.", "E2; DESIGN §3.2 C33")

ENGINES.append({"name": "E-lattice", "path": "/verif/cons", "serves_properties": ["C01", "C02", "C03", "C04", "C05", "C06", "C07", "C08", "C09", "C10", "C20"], "kind_free_text": "exhaustive DAG families x ideal-lattice exploration (all parents-first orders) of the real consensus/index code against the graph-based reference ref/lachesis"})
ENGINES.append({"name": "E2-seq", "path": "/verif/harness", "serves_properties": ["C19", "C22", "C24", "C27", "C29", "C33"], "kind_free_text": "explicit-state / bounded-sequence exploration of real sequential objects against boring reference models (ref/kv, list, refcount)"})
chk("C05", "model_checking", "exhaustive DAG families x ideal lattice (every parents-first indexing order) on the real vecfc.Index; full ForklessCause matrix vs graph definition on every edge",
    "All DAGs of the bounded families (all shapes up to N events for weight vectors [1,1],[3,1],[1,1,1],[2,1,1],[1,2,3],[1,1,1,1],[2,1,1,1]; 0-2 fork events at every position; a structured 3-branch multi-fork family where one event observes several branches at once) are indexed in every parents-first order (ideal lattice, fresh index + replay per edge); on every edge ForklessCause(A,B) for all pairs is compared with the bitset graph definition, asked warm, again, and cold (fresh index over the persisted data), with cache sizes lite/1/0/default and with interrupted additions (Add+DropNotFlushed, Add+Reset) before the real one.",
    "Trusted base: ref/lachesis FC/ForkSeen (graph closure). Bounds: N<=6 quick (<=8 thorough), <=4 validators.", "E-lattice; DESIGN §3.2 C05")
chk("C06", "model_checking", "same exploration as C05; merged vector clock of every event for every validator vs graph definition on every edge",
    "Same DAG families and lattice exploration as C05; on every edge GetMergedHighestBefore(e).Get(i) for every indexed event and validator is compared with 'fork seen in ancestry, else highest sequence among ancestors' computed by graph closure; warm, repeated and cold.",
    "Trusted base: ref/lachesis Clock.", "E-lattice; DESIGN §3.2 C06")
