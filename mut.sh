#!/bin/bash
# mut.sh <ID> <patch.diff> [tier]  — apply a seeded change to /repo, run the check, revert. Prints verdict.
ID="$1"; P="$2"; T="${3:-quick}"
cd /repo || exit 9
git diff --quiet || { echo "repo dirty"; exit 9; }
git apply "$P" || { echo "patch does not apply"; exit 9; }
cd /verif
./run.sh "$ID" "$T" > /tmp/mut.out 2>&1; rc=$?
git -C /repo checkout -- . ; git -C /repo clean -fdq
grep -E "VIOLATION|KNOWN-FINDING|BUILD-FAILED|ENGINE" /tmp/mut.out | head -5
grep -A2 "VIOLATION" /tmp/mut.out | grep -v VIOLATION | head -4
echo "exit=$rc"
