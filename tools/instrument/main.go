// instrument rewrites repository packages so that their concurrency, time, randomness and map
// iteration order run through the verif/mc shims, and emits a `go build -overlay` file set.  The
// repository itself is never modified; every check regenerates the overlay from the current tree.
//
//	instrument -repo /repo -out /verif/.work/c30 -pkgs utils/datasemaphore,utils/workers \
//	           -maprange 'kvdb/flushable/synced_pool.go=p.wrappers;kvdb/flaggedproducer/producer.go=f.dbs'
//
// Rewrites (purely syntactic, checked by the compiler afterwards):
//
//	import "sync" / "sync/atomic" / "time" / "math/rand"  ->  verif/mc/vsync, vatomic, vtime, vrand (same local name)
//	go f(x)            -> vsched.Go("file:line", func() { f(x) })
//	c <- v, <-c, v, ok := <-c, close(c)  -> vchan.Send / Recv / Recv2 / Close
//	select { ... }     -> switch vchan.Select(hasDefault, cases...) { case i: ... }
//	for k, v := range M (listed M only) -> iteration over vmap.Keys(M)
package main

import (
	"bytes"
	"encoding/json"
	"flag"
	"fmt"
	"go/ast"
	"go/parser"
	"go/printer"
	"go/token"
	"os"
	"path/filepath"
	"strconv"
	"strings"
)

var shimFor = map[string]string{
	"sync":        "verif/mc/vsync",
	"sync/atomic": "verif/mc/vatomic",
	"time":        "verif/mc/vtime",
	"math/rand":   "verif/mc/vrand",
}

type rewriter struct {
	fset                         *token.FileSet
	file                         *ast.File
	rel                          string
	needSched, needChan, needMap bool
	mapExprs                     map[string]bool
	tmp                          int
	counts                       map[string]int
}

func exprString(fset *token.FileSet, e ast.Expr) string {
	var b bytes.Buffer
	printer.Fprint(&b, fset, e)
	return b.String()
}

func sel(pkg, name string) ast.Expr {
	return &ast.SelectorExpr{X: ast.NewIdent(pkg), Sel: ast.NewIdent(name)}
}

func call(fn ast.Expr, args ...ast.Expr) *ast.CallExpr { return &ast.CallExpr{Fun: fn, Args: args} }

// rewriteExpr rewrites channel receives and close() inside an expression tree.
func (r *rewriter) expr(e ast.Expr) ast.Expr {
	if e == nil {
		return nil
	}
	switch x := e.(type) {
	case *ast.UnaryExpr:
		x.X = r.expr(x.X)
		if x.Op == token.ARROW {
			r.needChan = true
			r.counts["recv"]++
			return call(sel("vchan", "Recv"), x.X)
		}
		return x
	case *ast.CallExpr:
		x.Fun = r.expr(x.Fun)
		for i := range x.Args {
			x.Args[i] = r.expr(x.Args[i])
		}
		if id, ok := x.Fun.(*ast.Ident); ok && id.Name == "close" && len(x.Args) == 1 {
			r.needChan = true
			r.counts["close"]++
			return call(sel("vchan", "Close"), x.Args[0])
		}
		return x
	case *ast.FuncLit:
		r.block(x.Body)
		return x
	case *ast.BinaryExpr:
		x.X, x.Y = r.expr(x.X), r.expr(x.Y)
	case *ast.ParenExpr:
		x.X = r.expr(x.X)
	case *ast.SelectorExpr:
		x.X = r.expr(x.X)
	case *ast.IndexExpr:
		x.X, x.Index = r.expr(x.X), r.expr(x.Index)
	case *ast.SliceExpr:
		x.X, x.Low, x.High, x.Max = r.expr(x.X), r.expr(x.Low), r.expr(x.High), r.expr(x.Max)
	case *ast.StarExpr:
		x.X = r.expr(x.X)
	case *ast.TypeAssertExpr:
		x.X = r.expr(x.X)
	case *ast.KeyValueExpr:
		x.Key, x.Value = r.expr(x.Key), r.expr(x.Value)
	case *ast.CompositeLit:
		for i := range x.Elts {
			x.Elts[i] = r.expr(x.Elts[i])
		}
	}
	return e
}

func (r *rewriter) exprs(es []ast.Expr) {
	for i := range es {
		es[i] = r.expr(es[i])
	}
}

func (r *rewriter) block(b *ast.BlockStmt) {
	if b == nil {
		return
	}
	for i := range b.List {
		b.List[i] = r.stmt(b.List[i])
	}
}

func (r *rewriter) stmt(s ast.Stmt) ast.Stmt {
	switch x := s.(type) {
	case nil:
		return nil
	case *ast.BlockStmt:
		r.block(x)
	case *ast.ExprStmt:
		x.X = r.expr(x.X)
	case *ast.SendStmt:
		r.needChan = true
		r.counts["send"]++
		return &ast.ExprStmt{X: call(sel("vchan", "Send"), r.expr(x.Chan), r.expr(x.Value))}
	case *ast.AssignStmt:
		if len(x.Lhs) == 2 && len(x.Rhs) == 1 {
			if u, ok := x.Rhs[0].(*ast.UnaryExpr); ok && u.Op == token.ARROW {
				r.needChan = true
				r.counts["recv2"]++
				x.Rhs[0] = call(sel("vchan", "Recv2"), r.expr(u.X))
				r.exprs(x.Lhs)
				return x
			}
		}
		r.exprs(x.Lhs)
		r.exprs(x.Rhs)
	case *ast.GoStmt:
		r.needSched = true
		r.counts["go"]++
		x.Call = r.expr(x.Call).(*ast.CallExpr)
		pos := r.fset.Position(x.Pos())
		name := fmt.Sprintf("%s:%d", filepath.Base(pos.Filename), pos.Line)
		// a go statement evaluates the function value and the arguments in the calling goroutine: bind them to
		// temporaries first (a plain `go func(){...}()` needs none)
		var pre []ast.Stmt
		if _, lit := x.Call.Fun.(*ast.FuncLit); !lit || len(x.Call.Args) > 0 {
			bind := func(e ast.Expr) ast.Expr {
				if _, lit := e.(*ast.BasicLit); lit {
					return e // a literal has no evaluation time (and must stay an untyped constant)
				}
				tmp := "_vg" + strconv.Itoa(r.tmp)
				r.tmp++
				pre = append(pre, &ast.AssignStmt{Lhs: []ast.Expr{ast.NewIdent(tmp)}, Tok: token.DEFINE, Rhs: []ast.Expr{e}})
				return ast.NewIdent(tmp)
			}
			if !lit {
				x.Call.Fun = bind(x.Call.Fun)
			}
			for i := range x.Call.Args {
				x.Call.Args[i] = bind(x.Call.Args[i])
			}
		}
		body := &ast.BlockStmt{List: []ast.Stmt{&ast.ExprStmt{X: x.Call}}}
		spawn := &ast.ExprStmt{X: call(sel("vsched", "Go"), &ast.BasicLit{Kind: token.STRING, Value: strconv.Quote(name)},
			&ast.FuncLit{Type: &ast.FuncType{Params: &ast.FieldList{}}, Body: body})}
		if len(pre) == 0 {
			return spawn
		}
		return &ast.BlockStmt{List: append(pre, spawn)}
	case *ast.DeferStmt:
		x.Call = r.expr(x.Call).(*ast.CallExpr)
	case *ast.ReturnStmt:
		r.exprs(x.Results)
	case *ast.IfStmt:
		x.Init = r.stmt(x.Init)
		x.Cond = r.expr(x.Cond)
		r.block(x.Body)
		x.Else = r.stmt(x.Else)
	case *ast.ForStmt:
		x.Init = r.stmt(x.Init)
		x.Cond = r.expr(x.Cond)
		x.Post = r.stmt(x.Post)
		r.block(x.Body)
	case *ast.RangeStmt:
		x.X = r.expr(x.X)
		r.block(x.Body)
		if r.mapExprs[exprString(r.fset, x.X)] {
			return r.mapRange(x)
		}
	case *ast.SwitchStmt:
		x.Init = r.stmt(x.Init)
		x.Tag = r.expr(x.Tag)
		r.block(x.Body)
	case *ast.TypeSwitchStmt:
		x.Init = r.stmt(x.Init)
		x.Assign = r.stmt(x.Assign)
		r.block(x.Body)
	case *ast.CaseClause:
		r.exprs(x.List)
		for i := range x.Body {
			x.Body[i] = r.stmt(x.Body[i])
		}
	case *ast.LabeledStmt:
		x.Stmt = r.stmt(x.Stmt)
	case *ast.DeclStmt:
		if gd, ok := x.Decl.(*ast.GenDecl); ok {
			for _, sp := range gd.Specs {
				if vs, ok := sp.(*ast.ValueSpec); ok {
					r.exprs(vs.Values)
				}
			}
		}
	case *ast.IncDecStmt:
		x.X = r.expr(x.X)
	case *ast.SelectStmt:
		return r.selectStmt(x)
	}
	return s
}

func (r *rewriter) mapRange(x *ast.RangeStmt) ast.Stmt {
	// for k, v := range m { body }   becomes
	//
	//	{
	//		k, v := vmap.Zero(m)            // ONE pair of variables for the whole loop: the repository's go.mod
	//		_, _ = k, v                     // language version (< 1.22) gives range loops shared variables, and a
	//		for _, _vkN := range vmap.Keys(m) { // closure capturing them must keep seeing that
	//			k, v = _vkN, m[_vkN]
	//			body
	//		}
	//	}
	r.needMap = true
	r.counts["maprange"]++
	tmpKey := "_vk" + strconv.Itoa(r.tmp)
	r.tmp++
	blank := func(e ast.Expr) bool {
		if e == nil {
			return true
		}
		id, ok := e.(*ast.Ident)
		return ok && id.Name == "_"
	}
	var pre, assign []ast.Stmt
	if x.Tok == token.DEFINE && !(blank(x.Key) && blank(x.Value)) {
		k, v := ast.Expr(ast.NewIdent("_")), ast.Expr(ast.NewIdent("_"))
		if !blank(x.Key) {
			k = x.Key
		}
		if !blank(x.Value) {
			v = x.Value
		}
		pre = append(pre, &ast.AssignStmt{Lhs: []ast.Expr{k, v}, Tok: token.DEFINE, Rhs: []ast.Expr{call(sel("vmap", "Zero"), x.X)}})
		for _, e := range []ast.Expr{x.Key, x.Value} {
			if !blank(e) {
				pre = append(pre, &ast.AssignStmt{Lhs: []ast.Expr{ast.NewIdent("_")}, Tok: token.ASSIGN, Rhs: []ast.Expr{e}})
			}
		}
	}
	if !blank(x.Key) {
		assign = append(assign, &ast.AssignStmt{Lhs: []ast.Expr{x.Key}, Tok: token.ASSIGN, Rhs: []ast.Expr{ast.NewIdent(tmpKey)}})
	}
	if !blank(x.Value) {
		assign = append(assign, &ast.AssignStmt{Lhs: []ast.Expr{x.Value}, Tok: token.ASSIGN, Rhs: []ast.Expr{&ast.IndexExpr{X: x.X, Index: ast.NewIdent(tmpKey)}}})
	}
	body := &ast.BlockStmt{List: append(assign, x.Body.List...)}
	loop := &ast.RangeStmt{Key: ast.NewIdent("_"), Value: ast.NewIdent(tmpKey), Tok: token.DEFINE, X: call(sel("vmap", "Keys"), x.X), Body: body}
	if len(pre) == 0 {
		return loop
	}
	return &ast.BlockStmt{List: append(pre, loop)}
}

func (r *rewriter) selectStmt(x *ast.SelectStmt) ast.Stmt {
	r.needChan = true
	r.counts["select"]++
	var pre []ast.Stmt
	var args []ast.Expr
	hasDefault := false
	var clauses []ast.Stmt
	idx := 0
	for _, cl := range x.Body.List {
		cc := cl.(*ast.CommClause)
		for i := range cc.Body {
			cc.Body[i] = r.stmt(cc.Body[i])
		}
		if cc.Comm == nil {
			hasDefault = true
			clauses = append(clauses, &ast.CaseClause{List: []ast.Expr{&ast.UnaryExpr{Op: token.SUB, X: &ast.BasicLit{Kind: token.INT, Value: "1"}}}, Body: cc.Body})
			continue
		}
		tmp := "_vc" + strconv.Itoa(r.tmp)
		r.tmp++
		var bodyPre []ast.Stmt
		switch c := cc.Comm.(type) {
		case *ast.SendStmt:
			pre = append(pre, &ast.AssignStmt{Lhs: []ast.Expr{ast.NewIdent(tmp)}, Tok: token.DEFINE, Rhs: []ast.Expr{call(sel("vchan", "NewSend"), r.expr(c.Chan), r.expr(c.Value))}})
		case *ast.ExprStmt: // <-c
			u := c.X.(*ast.UnaryExpr)
			pre = append(pre, &ast.AssignStmt{Lhs: []ast.Expr{ast.NewIdent(tmp)}, Tok: token.DEFINE, Rhs: []ast.Expr{call(sel("vchan", "NewRecv"), r.expr(u.X))}})
		case *ast.AssignStmt: // v := <-c / v, ok := <-c / v = <-c
			u := c.Rhs[0].(*ast.UnaryExpr)
			pre = append(pre, &ast.AssignStmt{Lhs: []ast.Expr{ast.NewIdent(tmp)}, Tok: token.DEFINE, Rhs: []ast.Expr{call(sel("vchan", "NewRecv"), r.expr(u.X))}})
			rhs := []ast.Expr{sel(tmp, "Val")}
			if len(c.Lhs) == 2 {
				rhs = append(rhs, sel(tmp, "Ok"))
			}
			bodyPre = append(bodyPre, &ast.AssignStmt{Lhs: c.Lhs, Tok: c.Tok, Rhs: rhs})
		default:
			panic(fmt.Sprintf("%s: unsupported select communication %T", r.rel, c))
		}
		args = append(args, ast.NewIdent(tmp))
		clauses = append(clauses, &ast.CaseClause{List: []ast.Expr{&ast.BasicLit{Kind: token.INT, Value: strconv.Itoa(idx)}}, Body: append(bodyPre, cc.Body...)})
		idx++
	}
	def := "false"
	if hasDefault {
		def = "true"
	}
	// keeps the statement "terminating" when every arm returns, as the select was
	clauses = append(clauses, &ast.CaseClause{Body: []ast.Stmt{&ast.ExprStmt{X: call(ast.NewIdent("panic"), &ast.BasicLit{Kind: token.STRING, Value: strconv.Quote("vchan: impossible select result")})}}})
	sw := &ast.SwitchStmt{Tag: call(sel("vchan", "Select"), append([]ast.Expr{ast.NewIdent(def)}, args...)...), Body: &ast.BlockStmt{List: clauses}}
	return &ast.BlockStmt{List: append(pre, sw)}
}

func main() {
	repo := flag.String("repo", "/repo", "repository root")
	out := flag.String("out", "", "output directory (overlay files + overlay.json)")
	pkgs := flag.String("pkgs", "", "comma separated package dirs (relative to repo) to instrument fully")
	mapr := flag.String("maprange", "", "file=expr1,expr2;file2=expr  map range expressions to put under vmap")
	add := flag.String("add", "", "pkgdir=file[,pkgdir=file]: extra source files added (virtually) to repository packages")
	flag.Parse()
	if *out == "" {
		fmt.Fprintln(os.Stderr, "missing -out")
		os.Exit(2)
	}
	os.RemoveAll(*out)
	os.MkdirAll(*out, 0o755)
	mapCfg := map[string]map[string]bool{}
	for _, part := range strings.Split(*mapr, ";") {
		if part == "" {
			continue
		}
		kv := strings.SplitN(part, "=", 2)
		m := map[string]bool{}
		for _, e := range strings.Split(kv[1], ",") {
			m[e] = true
		}
		mapCfg[kv[0]] = m
	}
	files := map[string]bool{} // rel path -> full rewrite?
	for _, p := range strings.Split(*pkgs, ",") {
		if p == "" {
			continue
		}
		ents, err := os.ReadDir(filepath.Join(*repo, p))
		if err != nil {
			fmt.Fprintln(os.Stderr, err)
			os.Exit(2)
		}
		for _, e := range ents {
			if strings.HasSuffix(e.Name(), ".go") && !strings.HasSuffix(e.Name(), "_test.go") {
				files[filepath.Join(p, e.Name())] = true
			}
		}
	}
	for f := range mapCfg {
		if _, ok := files[f]; !ok {
			files[f] = false
		}
	}
	overlay := map[string]string{}
	total := map[string]int{}
	for rel, full := range files {
		fset := token.NewFileSet()
		src := filepath.Join(*repo, rel)
		f, err := parser.ParseFile(fset, src, nil, parser.ParseComments)
		if err != nil {
			fmt.Fprintln(os.Stderr, err)
			os.Exit(2)
		}
		r := &rewriter{fset: fset, file: f, rel: rel, mapExprs: mapCfg[rel], counts: map[string]int{}}
		if r.mapExprs == nil {
			r.mapExprs = map[string]bool{}
		}
		if full {
			for _, d := range f.Decls {
				switch x := d.(type) {
				case *ast.FuncDecl:
					r.block(x.Body)
				case *ast.GenDecl:
					for _, sp := range x.Specs {
						if vs, ok := sp.(*ast.ValueSpec); ok {
							r.exprs(vs.Values)
						}
					}
				}
			}
			for _, im := range f.Imports {
				path, _ := strconv.Unquote(im.Path.Value)
				if shim, ok := shimFor[path]; ok {
					if im.Name == nil {
						im.Name = ast.NewIdent(filepath.Base(path))
					}
					im.Path.Value = strconv.Quote(shim)
					r.counts["import:"+path]++
				}
			}
		} else {
			// map ranges only
			ast.Inspect(f, func(n ast.Node) bool {
				if b, ok := n.(*ast.BlockStmt); ok {
					for i, s := range b.List {
						if rs, ok := s.(*ast.RangeStmt); ok && r.mapExprs[exprString(fset, rs.X)] {
							b.List[i] = r.mapRange(rs)
						}
					}
				}
				return true
			})
		}
		if len(r.mapExprs) > 0 && r.counts["maprange"] == 0 {
			fmt.Fprintf(os.Stderr, "%s: none of the configured map range expressions %v was found\n", rel, r.mapExprs)
			os.Exit(2)
		}
		var buf bytes.Buffer
		if err := printer.Fprint(&buf, fset, f); err != nil {
			fmt.Fprintln(os.Stderr, err)
			os.Exit(2)
		}
		text := buf.String()
		// add shim imports right after the package clause and the go1.18 build constraint
		var extra []string
		if r.needSched {
			extra = append(extra, `vsched "verif/mc/sched"`)
		}
		if r.needChan {
			extra = append(extra, `vchan "verif/mc/vchan"`)
		}
		if r.needMap {
			extra = append(extra, `vmap "verif/mc/vmap"`)
		}
		if len(extra) > 0 {
			i := strings.Index(text, "\npackage ")
			if strings.HasPrefix(text, "package ") {
				i = -1
			}
			j := strings.Index(text[i+1:], "\n") + i + 1
			text = text[:j+1] + "\nimport (\n\t" + strings.Join(extra, "\n\t") + "\n)\n" + text[j+1:]
		}
		text = "//go:build go1.18\n\n" + text
		dst := filepath.Join(*out, strings.ReplaceAll(rel, "/", "__"))
		if err := os.WriteFile(dst, []byte(text), 0o644); err != nil {
			fmt.Fprintln(os.Stderr, err)
			os.Exit(2)
		}
		overlay[src] = dst
		for k, v := range r.counts {
			total[k] += v
		}
	}
	for _, part := range strings.Split(*add, ",") {
		if part == "" {
			continue
		}
		kv := strings.SplitN(part, "=", 2)
		abs, err := filepath.Abs(kv[1])
		if err != nil {
			fmt.Fprintln(os.Stderr, err)
			os.Exit(2)
		}
		if _, err := os.Stat(abs); err != nil {
			fmt.Fprintln(os.Stderr, err)
			os.Exit(2)
		}
		name := "zz_verif_" + strings.TrimSuffix(filepath.Base(abs), ".txt")
		overlay[filepath.Join(*repo, kv[0], name)] = abs
	}
	b, _ := json.MarshalIndent(map[string]interface{}{"Replace": overlay}, "", " ")
	os.WriteFile(filepath.Join(*out, "overlay.json"), b, 0o644)
	fmt.Println("instrumented", len(overlay), "files:", total)
}
