// Package vsync is the drop-in replacement for "sync" wired in by tools/instrument.  Under a
// controlled execution every operation is a scheduling point and blocking is decided by the
// scheduler; otherwise the real primitives are used.
package vsync

import (
	"sync"

	"verif/mc/sched"
)

type Locker = sync.Locker

// YieldOnUnlock adds a scheduling point after every unlock.  It is off by default: a thread's next
// visible operation has its own scheduling point in front of it, and everything between an unlock
// and that point is thread-local in a data-race-free program, so the extra point only multiplies
// equivalent schedules.
var YieldOnUnlock = false

//go:norace
func unlockPoint(what string) {
	if YieldOnUnlock {
		sched.Point(what)
	}
}

type Mutex struct {
	real   sync.Mutex
	locked bool
}

//go:norace
func (m *Mutex) Lock() {
	if !sched.Active() {
		m.real.Lock()
		return
	}
	sched.Point("Mutex.Lock")
	if m.locked {
		sched.Block("Mutex.Lock", func() bool { return !m.locked })
	}
	m.locked = true
	m.real.Lock() // never blocks here; it gives the race detector the program's own happens-before edge
}

//go:norace
func (m *Mutex) Unlock() {
	if !sched.Active() {
		m.real.Unlock()
		return
	}
	if !m.locked {
		if !sched.Killed() {
			panic("sync: unlock of unlocked mutex")
		}
		return
	}
	m.locked = false
	m.real.Unlock()
	unlockPoint("Mutex.Unlock")
}

// VerifLocked reports the shim's lock state (harness observation, controlled executions only).
//
//go:norace
func (m *Mutex) VerifLocked() bool { return m.locked }

//go:norace
func (m *Mutex) TryLock() bool {
	if !sched.Active() {
		return m.real.TryLock()
	}
	sched.Point("Mutex.TryLock")
	if m.locked {
		return false
	}
	m.locked = true
	m.real.Lock()
	return true
}

type RWMutex struct {
	real    sync.RWMutex
	writer  bool
	readers int
	wwait   int // writers waiting: new readers queue behind them, as in the real RWMutex
}

//go:norace
func (m *RWMutex) Lock() {
	if !sched.Active() {
		m.real.Lock()
		return
	}
	sched.Point("RWMutex.Lock")
	if m.writer || m.readers > 0 {
		m.wwait++
		sched.Block("RWMutex.Lock", func() bool { return !m.writer && m.readers == 0 })
		m.wwait--
	}
	m.writer = true
	m.real.Lock()
}

//go:norace
func (m *RWMutex) Unlock() {
	if !sched.Active() {
		m.real.Unlock()
		return
	}
	if !m.writer {
		if !sched.Killed() {
			panic("sync: Unlock of unlocked RWMutex")
		}
		return
	}
	m.writer = false
	m.real.Unlock()
	unlockPoint("RWMutex.Unlock")
}

//go:norace
func (m *RWMutex) RLock() {
	if !sched.Active() {
		m.real.RLock()
		return
	}
	sched.Point("RWMutex.RLock")
	if m.writer || m.wwait > 0 {
		sched.Block("RWMutex.RLock", func() bool { return !m.writer && m.wwait == 0 })
	}
	m.readers++
	m.real.RLock()
}

//go:norace
func (m *RWMutex) RUnlock() {
	if !sched.Active() {
		m.real.RUnlock()
		return
	}
	if m.readers <= 0 {
		if !sched.Killed() {
			panic("sync: RUnlock of unlocked RWMutex")
		}
		return
	}
	m.readers--
	m.real.RUnlock()
	unlockPoint("RWMutex.RUnlock")
}

//go:norace
func (m *RWMutex) RLocker() Locker { return (*rlocker)(m) }

type rlocker RWMutex

//go:norace
func (r *rlocker) Lock() { (*RWMutex)(r).RLock() }

//go:norace
func (r *rlocker) Unlock() { (*RWMutex)(r).RUnlock() }

type WaitGroup struct {
	real sync.WaitGroup
	n    int
}

//go:norace
func (w *WaitGroup) Add(d int) {
	if !sched.Active() {
		w.real.Add(d)
		return
	}
	w.n += d
	if w.n < 0 {
		if !sched.Killed() {
			panic("sync: negative WaitGroup counter")
		}
	} else {
		w.real.Add(d)
	}
	sched.Point("WaitGroup.Add")
}

//go:norace
func (w *WaitGroup) Done() { w.Add(-1) }

// VerifCount returns the counter (harness observation, controlled executions only).
//
//go:norace
func (w *WaitGroup) VerifCount() int { return w.n }

//go:norace
func (w *WaitGroup) Wait() {
	if !sched.Active() {
		w.real.Wait()
		return
	}
	sched.Point("WaitGroup.Wait")
	if w.n > 0 {
		sched.Block("WaitGroup.Wait", func() bool { return w.n <= 0 })
	}
	if w.n == 0 {
		w.real.Wait()
	}
}

type Cond struct {
	L       Locker
	real    *sync.Cond
	waiters []*condWaiter
}

type condWaiter struct{ woken bool }

//go:norace
func NewCond(l Locker) *Cond {
	return &Cond{L: l, real: sync.NewCond(l)}
}

//go:norace
func (c *Cond) Wait() {
	if !sched.Active() {
		c.real.Wait()
		return
	}
	w := &condWaiter{}
	c.waiters = append(c.waiters, w)
	c.L.Unlock()
	sched.Block("Cond.Wait", func() bool { return w.woken })
	c.L.Lock()
}

//go:norace
func (c *Cond) Signal() {
	if !sched.Active() {
		c.real.Signal()
		return
	}
	sched.Point("Cond.Signal")
	if len(c.waiters) > 0 {
		c.waiters[0].woken = true
		c.waiters = c.waiters[1:]
	}
}

//go:norace
func (c *Cond) Broadcast() {
	if !sched.Active() {
		c.real.Broadcast()
		return
	}
	sched.Point("Cond.Broadcast")
	for _, w := range c.waiters {
		w.woken = true
	}
	c.waiters = nil
}

type Once struct {
	real sync.Once
	done bool
	m    Mutex
}

//go:norace
func (o *Once) Do(f func()) {
	if !sched.Active() {
		o.real.Do(f)
		return
	}
	o.m.Lock()
	defer o.m.Unlock()
	if !o.done {
		o.done = true
		f()
	}
}

// Map and Pool are passed through (no scheduling points of their own).
type Map = sync.Map
type Pool = sync.Pool
