// Package vatomic replaces "sync/atomic": each operation is a scheduling point followed by the real
// atomic operation.
package vatomic

import (
	"sync/atomic"

	"verif/mc/sched"
)

//go:norace
func LoadInt32(p *int32) int32 { sched.Point("atomic.Load"); return atomic.LoadInt32(p) }

//go:norace
func LoadInt64(p *int64) int64 { sched.Point("atomic.Load"); return atomic.LoadInt64(p) }

//go:norace
func LoadUint32(p *uint32) uint32 { sched.Point("atomic.Load"); return atomic.LoadUint32(p) }

//go:norace
func LoadUint64(p *uint64) uint64 { sched.Point("atomic.Load"); return atomic.LoadUint64(p) }

//go:norace
func StoreInt32(p *int32, v int32) { sched.Point("atomic.Store"); atomic.StoreInt32(p, v) }

//go:norace
func StoreInt64(p *int64, v int64) { sched.Point("atomic.Store"); atomic.StoreInt64(p, v) }

//go:norace
func StoreUint32(p *uint32, v uint32) {
	sched.Point("atomic.Store")
	atomic.StoreUint32(p, v)
}

//go:norace
func StoreUint64(p *uint64, v uint64) {
	sched.Point("atomic.Store")
	atomic.StoreUint64(p, v)
}

//go:norace
func AddInt32(p *int32, d int32) int32 { sched.Point("atomic.Add"); return atomic.AddInt32(p, d) }

//go:norace
func AddInt64(p *int64, d int64) int64 { sched.Point("atomic.Add"); return atomic.AddInt64(p, d) }

//go:norace
func AddUint32(p *uint32, d uint32) uint32 { sched.Point("atomic.Add"); return atomic.AddUint32(p, d) }

//go:norace
func AddUint64(p *uint64, d uint64) uint64 { sched.Point("atomic.Add"); return atomic.AddUint64(p, d) }

//go:norace
func CompareAndSwapInt32(p *int32, o, n int32) bool {
	sched.Point("atomic.CAS")
	return atomic.CompareAndSwapInt32(p, o, n)
}

//go:norace
func CompareAndSwapInt64(p *int64, o, n int64) bool {
	sched.Point("atomic.CAS")
	return atomic.CompareAndSwapInt64(p, o, n)
}

//go:norace
func CompareAndSwapUint32(p *uint32, o, n uint32) bool {
	sched.Point("atomic.CAS")
	return atomic.CompareAndSwapUint32(p, o, n)
}

//go:norace
func CompareAndSwapUint64(p *uint64, o, n uint64) bool {
	sched.Point("atomic.CAS")
	return atomic.CompareAndSwapUint64(p, o, n)
}

type Value = atomic.Value
