// Package lin is a brute-force linearizability checker for the short histories produced by the
// scheduler-based harnesses (at most ~12 operations): depth-first search over all linearization
// orders that respect real-time precedence (a returned before b was called), memoised on
// (set of linearized operations, model state).
package lin

import "fmt"

// Op is one completed (or pending) operation of a history.
type Op struct {
	Thread  int
	Call    int // logical timestamp of the invocation
	Ret     int // logical timestamp of the response (ignored when Pending)
	Pending bool
	Name    string      // operation name
	In      interface{} // arguments
	Out     interface{} // observed result
}

//go:norace
func (o Op) String() string {
	if o.Pending {
		return fmt.Sprintf("T%d %s(%v) [pending]", o.Thread, o.Name, o.In)
	}
	return fmt.Sprintf("T%d %s(%v)=%v @%d-%d", o.Thread, o.Name, o.In, o.Out, o.Call, o.Ret)
}

// Model is a sequential specification over comparable (string-encoded) states.
// Step returns every state the model may be in after op takes effect atomically in state s with the
// observed output (empty = the observed output is impossible in s).  For a pending operation the
// output is unknown and Step must return the states for every possible output.
type Model interface {
	Init() string
	Step(s string, op Op) []string
}

// Check reports whether the history is linearizable; on success it returns one witness order.
// Pending operations may take effect or not.
//
//go:norace
func Check(m Model, h []Op) (bool, []int) {
	n := len(h)
	if n > 30 {
		panic("lin: history too long")
	}
	type key struct {
		done uint32
		st   string
	}
	seen := map[key]bool{}
	order := make([]int, 0, n)
	var full uint32
	for i, o := range h {
		if !o.Pending {
			full |= 1 << uint(i)
		}
	}
	var dfs func(done uint32, st string) bool
	dfs = func(done uint32, st string) bool {
		if done&full == full {
			return true
		}
		k := key{done, st}
		if seen[k] {
			return false
		}
		seen[k] = true
		// minimal response time among not-yet-linearized completed ops: an op may go next only if it
		// was invoked before every unlinearized op returned
		minRet := int(^uint(0) >> 1)
		for i, o := range h {
			if done&(1<<uint(i)) == 0 && !o.Pending && o.Ret < minRet {
				minRet = o.Ret
			}
		}
		for i, o := range h {
			if done&(1<<uint(i)) != 0 || o.Call > minRet {
				continue
			}
			for _, ns := range m.Step(st, o) {
				order = append(order, i)
				if dfs(done|1<<uint(i), ns) {
					return true
				}
				order = order[:len(order)-1]
			}
		}
		return false
	}
	ok := dfs(0, m.Init())
	if ok {
		return true, append([]int(nil), order...)
	}
	return false, nil
}
