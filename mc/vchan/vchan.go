// Package vchan routes channel operations of instrumented packages through the scheduler.  Real Go
// channels are kept (types stay unchanged); readiness is computed from len/cap and a closed-set, so
// only buffered channels and close-only signalling channels are supported: an unbuffered channel
// that is actually sent on is a hard error (none exists in the instrumented packages).
package vchan

import (
	"fmt"
	"reflect"

	"verif/mc/sched"
)

var closed = map[uintptr]bool{}

//go:norace
func ptr(c interface{}) uintptr { return reflect.ValueOf(c).Pointer() }

// Reset forgets closed channels (called at the start of every execution).
//
//go:norace
func Reset() { closed = map[uintptr]bool{} }

//go:norace
func init() { sched.OnRunStart = append(sched.OnRunStart, Reset) }

//go:norace
func isClosed(c interface{}) bool { return closed[ptr(c)] }

//go:norace
func recvReady(c interface{}) bool {
	v := reflect.ValueOf(c)
	if v.IsNil() {
		return false
	}
	return v.Len() > 0 || closed[v.Pointer()]
}

//go:norace
func sendReady(c interface{}) bool {
	v := reflect.ValueOf(c)
	if v.IsNil() {
		return false
	}
	if closed[v.Pointer()] {
		return true // will panic, as the real operation does
	}
	if v.Cap() == 0 {
		panic("vchan: send on an unbuffered channel is not supported by the scheduler shim")
	}
	return v.Len() < v.Cap()
}

// Send is `c <- v`.
//
//go:norace
func Send[T any](c chan<- T, v T) {
	if !sched.Active() {
		c <- v
		return
	}
	sched.Point("chan send")
	if !sendReady(c) {
		sched.Block("chan send", func() bool { return sendReady(c) })
	}
	if isClosed(c) {
		panic("send on closed channel")
	}
	c <- v
}

// Recv is `<-c`.
//
//go:norace
func Recv[T any](c <-chan T) T {
	v, _ := Recv2(c)
	return v
}

// Recv2 is `v, ok := <-c`.
//
//go:norace
func Recv2[T any](c <-chan T) (T, bool) {
	if !sched.Active() {
		v, ok := <-c
		return v, ok
	}
	sched.Point("chan recv")
	if !recvReady(c) {
		sched.Block("chan recv", func() bool { return recvReady(c) })
	}
	return take(c)
}

//go:norace
func take[T any](c <-chan T) (T, bool) {
	if reflect.ValueOf(c).Len() > 0 {
		v := <-c
		return v, true
	}
	var zero T
	return zero, false // closed and drained
}

// Close is `close(c)`.
//
//go:norace
func Close[T any](c chan<- T) {
	if !sched.Active() {
		close(c)
		return
	}
	sched.Point("chan close")
	if isClosed(c) {
		panic("close of closed channel")
	}
	closed[ptr(c)] = true
	close(c)
}

// TimerSend delivers a timer tick (called from the controller: no scheduling point).
//
//go:norace
func TimerSend[T any](c chan T, v T) {
	select {
	case c <- v:
	default:
	}
}

// Case is one arm of a select.
type Case interface {
	ready() bool
	run()
}

type SendOp[T any] struct {
	C chan<- T
	V T
}

//go:norace
func (o *SendOp[T]) ready() bool { return sendReady(o.C) }

//go:norace
func (o *SendOp[T]) run() {
	if isClosed(o.C) {
		panic("send on closed channel")
	}
	o.C <- o.V
}

type RecvOp[T any] struct {
	C   <-chan T
	Val T
	Ok  bool
}

//go:norace
func (o *RecvOp[T]) ready() bool { return recvReady(o.C) }

//go:norace
func (o *RecvOp[T]) run() { o.Val, o.Ok = take(o.C) }

//go:norace
func NewSend[T any](c chan<- T, v T) *SendOp[T] { return &SendOp[T]{C: c, V: v} }

//go:norace
func NewRecv[T any](c <-chan T) *RecvOp[T] { return &RecvOp[T]{C: c} }

// Select performs a select over the cases and returns the index of the arm taken (-1 = default).
// Which ready arm is taken is an explorer choice.
//
//go:norace
func Select(hasDefault bool, cases ...Case) int {
	if !sched.Active() {
		return realSelect(hasDefault, cases)
	}
	sched.Point("select")
	ready := func() []int {
		var r []int
		for i, c := range cases {
			if c.ready() {
				r = append(r, i)
			}
		}
		return r
	}
	r := ready()
	if len(r) == 0 {
		if hasDefault {
			return -1
		}
		sched.Block("select", func() bool { return len(ready()) > 0 })
		r = ready()
	}
	i := r[0]
	if len(r) > 1 {
		i = r[sched.Choose(len(r), "select arm")]
	}
	cases[i].run()
	return i
}

// realSelect runs the select with the real runtime (free-running mode).
//
//go:norace
func realSelect(hasDefault bool, cases []Case) int {
	sc := make([]reflect.SelectCase, 0, len(cases)+1)
	for _, c := range cases {
		v := reflect.ValueOf(c).Elem()
		switch {
		case v.FieldByName("V").IsValid():
			sc = append(sc, reflect.SelectCase{Dir: reflect.SelectSend, Chan: v.FieldByName("C"), Send: v.FieldByName("V")})
		default:
			sc = append(sc, reflect.SelectCase{Dir: reflect.SelectRecv, Chan: v.FieldByName("C")})
		}
	}
	if hasDefault {
		sc = append(sc, reflect.SelectCase{Dir: reflect.SelectDefault})
	}
	i, val, ok := reflect.Select(sc)
	if hasDefault && i == len(cases) {
		return -1
	}
	if sc[i].Dir == reflect.SelectRecv {
		v := reflect.ValueOf(cases[i]).Elem()
		if ok {
			v.FieldByName("Val").Set(val)
		}
		v.FieldByName("Ok").SetBool(ok)
	}
	return i
}

var _ = fmt.Sprint
