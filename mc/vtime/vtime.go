// Package vtime replaces "time" in instrumented packages: Now/Since/Sleep/timers/tickers run on the
// scheduler's virtual clock; types and constants are the real ones (aliases).
package vtime

import (
	"time"

	"verif/mc/sched"
	"verif/mc/vchan"
)

type Duration = time.Duration
type Time = time.Time
type Month = time.Month
type Location = time.Location

const (
	Nanosecond  = time.Nanosecond
	Microsecond = time.Microsecond
	Millisecond = time.Millisecond
	Second      = time.Second
	Minute      = time.Minute
	Hour        = time.Hour
)

var UTC = time.UTC

//go:norace
func Now() Time { return sched.Now() }

//go:norace
func Since(t Time) Duration { return sched.Now().Sub(t) }

//go:norace
func Until(t Time) Duration { return t.Sub(sched.Now()) }

//go:norace
func Unix(sec, nsec int64) Time { return time.Unix(sec, nsec) }

//go:norace
func Date(y int, m Month, d, h, mi, s, ns int, loc *Location) Time {
	return time.Date(y, m, d, h, mi, s, ns, loc)
}

//go:norace
func Sleep(d Duration) {
	if !sched.Active() {
		time.Sleep(d)
		return
	}
	if sched.Killed() {
		return
	}
	woken := false
	sched.AddTimer(sched.Now().Add(d), func() { woken = true })
	sched.Block("Sleep", func() bool { return woken })
}

// Timer mirrors time.Timer.
type Timer struct {
	C      <-chan Time
	c      chan Time
	real   *time.Timer
	cancel func()
	armed  bool
	fn     func()
}

//go:norace
func (t *Timer) arm(d Duration) {
	t.armed = true
	t.cancel = sched.AddTimer(sched.Now().Add(d), func() {
		t.armed = false
		if t.fn != nil {
			sched.SpawnFromTimer("AfterFunc", t.fn)
			return
		}
		vchan.TimerSend(t.c, sched.Now())
	})
}

//go:norace
func NewTimer(d Duration) *Timer {
	if !sched.Active() {
		r := time.NewTimer(d)
		return &Timer{C: r.C, real: r}
	}
	c := make(chan Time, 1)
	t := &Timer{C: c, c: c}
	t.arm(d)
	return t
}

//go:norace
func AfterFunc(d Duration, f func()) *Timer {
	if !sched.Active() {
		return &Timer{real: time.AfterFunc(d, f)}
	}
	// the callback runs on a thread started by the clock; a closed channel carries the
	// happens-before edge from the AfterFunc call to the callback, as the real timer does
	hb := make(chan struct{})
	close(hb)
	t := &Timer{fn: func() { <-hb; f() }}
	t.arm(d)
	return t
}

//go:norace
func After(d Duration) <-chan Time { return NewTimer(d).C }

//go:norace
func (t *Timer) Stop() bool {
	if t.real != nil {
		return t.real.Stop()
	}
	sched.Point("Timer.Stop")
	was := t.armed
	if t.cancel != nil {
		t.cancel()
	}
	t.armed = false
	return was
}

//go:norace
func (t *Timer) Reset(d Duration) bool {
	if t.real != nil {
		return t.real.Reset(d)
	}
	sched.Point("Timer.Reset")
	was := t.armed
	if t.cancel != nil {
		t.cancel()
	}
	if !sched.Killed() {
		t.arm(d)
	}
	return was
}

// Ticker mirrors time.Ticker.
type Ticker struct {
	C       <-chan Time
	c       chan Time
	real    *time.Ticker
	cancel  func()
	d       Duration
	stopped bool
}

//go:norace
func (t *Ticker) arm() {
	t.cancel = sched.AddTimer(sched.Now().Add(t.d), func() {
		if t.stopped {
			return
		}
		vchan.TimerSend(t.c, sched.Now())
		t.arm()
	})
}

//go:norace
func NewTicker(d Duration) *Ticker {
	if !sched.Active() {
		r := time.NewTicker(d)
		return &Ticker{C: r.C, real: r}
	}
	if d <= 0 {
		panic("non-positive interval for NewTicker")
	}
	c := make(chan Time, 1)
	t := &Ticker{C: c, c: c, d: d}
	t.arm()
	return t
}

//go:norace
func (t *Ticker) Stop() {
	if t.real != nil {
		t.real.Stop()
		return
	}
	t.stopped = true
	if t.cancel != nil {
		t.cancel()
	}
}
