// Package vmap makes map iteration order an owned choice: instrumented `for k, v := range m` loops
// iterate over Keys(m), i.e. the keys sorted canonically and then permuted by the harness hook
// Permute (default: identity) or, under a controlled execution, by an explorer choice.
package vmap

import (
	"fmt"
	"sort"

	"verif/mc/sched"
)

// Permute, if set, reorders the n sorted keys of the k-th instrumented loop execution; it returns a
// permutation of 0..n-1.  The harness enumerates permutations through it.
var Permute func(loopSeq int, n int) []int

var loopSeq int

// ResetSeq restarts the loop counter (harness: before each run).
//
//go:norace
func ResetSeq() { loopSeq = 0 }

// Loops returns how many instrumented loops ran since ResetSeq, for the harness to size its enumeration.
//
//go:norace
func Loops() int { return loopSeq }

var sizes []int

// Sizes returns the number of keys of every instrumented loop executed since ResetSeq.
//
//go:norace
func Sizes() []int { return sizes }

// Zero returns zero values of the map's key and value types (used to declare the loop variables of an
// instrumented range loop once, outside the loop).
//
//go:norace
func Zero[K comparable, V any](m map[K]V) (k K, v V) { return }

//go:norace
func Keys[K comparable, V any](m map[K]V) []K {
	keys := make([]K, 0, len(m))
	for k := range m {
		keys = append(keys, k)
	}
	sort.Slice(keys, func(i, j int) bool { return fmt.Sprint(keys[i]) < fmt.Sprint(keys[j]) })
	seq := loopSeq
	loopSeq++
	if seq == 0 {
		sizes = sizes[:0]
	}
	sizes = append(sizes, len(keys))
	if len(keys) < 2 {
		return keys
	}
	var perm []int
	if Permute != nil {
		perm = Permute(seq, len(keys))
	} else if sched.Active() {
		perm = nthPerm(len(keys), sched.Choose(fact(len(keys)), "map iteration order"))
	}
	if perm == nil {
		return keys
	}
	out := make([]K, len(keys))
	for i, p := range perm {
		out[i] = keys[p]
	}
	return out
}

//go:norace
func fact(n int) int {
	f := 1
	for i := 2; i <= n; i++ {
		f *= i
	}
	return f
}

// nthPerm returns the k-th permutation of 0..n-1 in lexicographic order.
//
//go:norace
func nthPerm(n, k int) []int {
	items := make([]int, n)
	for i := range items {
		items[i] = i
	}
	out := make([]int, 0, n)
	for i := n; i >= 1; i-- {
		f := fact(i - 1)
		j := k / f
		k %= f
		out = append(out, items[j])
		items = append(items[:j], items[j+1:]...)
	}
	return out
}

// NthPerm is exported for harnesses.
//
//go:norace
func NthPerm(n, k int) []int { return nthPerm(n, k) }

// Fact is exported for harnesses.
//
//go:norace
func Fact(n int) int { return fact(n) }
