// Package vrand replaces "math/rand": under a controlled execution Intn and friends are explorer
// choice points (bounded), otherwise the real generator is used.
package vrand

import (
	"math/rand"

	"verif/mc/sched"
)

type Rand = rand.Rand
type Source = rand.Source

//go:norace
func New(src Source) *Rand { return rand.New(src) }

//go:norace
func NewSource(seed int64) Source { return rand.NewSource(seed) }

//go:norace
func Seed(seed int64) { rand.Seed(seed) }

//go:norace
func Intn(n int) int {
	if !sched.Active() {
		return rand.Intn(n)
	}
	m := n
	if m > 3 {
		m = 3 // at most three alternatives are explored for large ranges
	}
	return sched.Choose(m, "rand.Intn")
}

//go:norace
func Int() int { return Intn(1 << 30) }

//go:norace
func Int63() int64 { return int64(Intn(1 << 30)) }

//go:norace
func Int63n(n int64) int64 {
	if n > 1<<30 {
		n = 1 << 30
	}
	return int64(Intn(int(n)))
}

//go:norace
func Float64() float64 { return 0 }

//go:norace
func Perm(n int) []int {
	p := make([]int, n)
	for i := range p {
		p[i] = i
	}
	return p
}

//go:norace
func Shuffle(n int, swap func(i, j int)) {}
