//go:build race

package sched

import (
	"syscall"
	"unsafe"
)

// baton in race builds: a pipe driven by raw system calls.  Go's race detector models channel
// operations, mutexes and even syscall.Read/Write as happens-before edges; a hand-off through any of
// them would order every pair of program threads through the controller and blind the detector.
// Raw SYS_READ / SYS_WRITE are invisible to it, so the only happens-before edges it sees are the
// program's own (the shims perform the real synchronisation operation once the scheduler grants it).
type baton struct{ r, w int }

//go:norace
func newBaton() baton {
	var p [2]int
	if err := syscall.Pipe(p[:]); err != nil {
		panic("sched: pipe: " + err.Error())
	}
	return baton{p[0], p[1]}
}

//go:norace
func (b baton) signal() {
	x := [1]byte{1}
	for {
		n, _, e := syscall.Syscall(syscall.SYS_WRITE, uintptr(b.w), uintptr(unsafe.Pointer(&x[0])), 1)
		if n == 1 {
			return
		}
		if e != 0 && e != syscall.EINTR && e != syscall.EAGAIN {
			panic("sched: baton write: " + e.Error())
		}
	}
}

//go:norace
func (b baton) wait() {
	var x [1]byte
	for {
		n, _, e := syscall.Syscall(syscall.SYS_READ, uintptr(b.r), uintptr(unsafe.Pointer(&x[0])), 1)
		if n == 1 {
			return
		}
		if e != 0 && e != syscall.EINTR && e != syscall.EAGAIN {
			panic("sched: baton read: " + e.Error())
		}
	}
}

//go:norace
func (b baton) release() {
	syscall.Close(b.r)
	syscall.Close(b.w)
}

// RaceBuild reports whether the binary was built with the race detector.
const RaceBuild = true
