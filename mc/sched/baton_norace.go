//go:build !race

package sched

// baton hands control between the controller and a program thread.  In normal builds it is a channel.
type baton chan struct{}

func newBaton() baton { return make(chan struct{}) }

//go:norace
func (b baton) signal() { b <- struct{}{} }

//go:norace
func (b baton) wait() { <-b }

func (b baton) release() {}

// RaceBuild reports whether the binary was built with the race detector.
const RaceBuild = false
