// Package sched is the controlled scheduler of engine E1.
//
// Program threads are real goroutines, but exactly one of them runs at any time: every shim
// operation (mc/vsync, vtime, vchan, vatomic) calls Point()/Block() here and hands control to the
// controller (the goroutine that called Run), which decides which thread continues.  Time is
// virtual: timers live in a queue and a pseudo-thread "clock" fires the earliest one when chosen.
// An execution is fully determined by its list of choices; explore.go enumerates them depth-first
// with iterative deviation bounding.
package sched

import (
	"fmt"
	"sort"
	"strings"
	"time"
)

type thread struct {
	id      int
	name    string
	resume  baton
	done    bool
	blocked func() bool // nil = runnable; else enabled iff blocked() is true
	blockOn string
	doneCh  chan struct{}
}

type timer struct {
	when time.Time
	seq  int
	fire func()
	dead bool
}

// Sched is one execution.
type Sched struct {
	threads []*thread
	cur     *thread
	now     time.Time
	timers  []*timer
	tseq    int
	yield   baton

	prefix   []int
	choices  []int
	nopts    []int
	kinds    []byte // 's' scheduling point, 'c' explicit Choose
	curRun   []bool // the running thread was still enabled at this point (switching away = preemption)
	clockAt  []int  // index of the clock option at this point (-1 none)
	nprog    []int  // number of enabled program threads at this point
	steps    int
	maxSteps int

	killed  bool
	failure string
	trace   []string
	tracing bool

	// Log is the observation log of the execution (harness use).
	Log []string
	// Ctx carries harness data.
	Ctx interface{}
}

type killSignal struct{}

var active *Sched

// OnRunStart hooks are called at the beginning of every execution (shims reset their state).
var OnRunStart []func()

// Active reports whether a controlled execution is running (shims fall through to the real
// primitives otherwise).
//
//go:norace
func Active() bool { return active != nil }

var epoch0 = time.Date(2030, 1, 1, 0, 0, 0, 0, time.UTC)

// Epoch0 is the virtual time at which every execution starts.
//
//go:norace
func Epoch0() time.Time { return epoch0 }

// Now returns the virtual time (real time when no execution is active).
//
//go:norace
func Now() time.Time {
	if active == nil {
		return time.Now()
	}
	return active.now
}

// Result of one execution.
type Result struct {
	Choices  []int
	NOpts    []int
	Kinds    []byte
	CurRun   []bool
	ClockAt  []int
	NProg    []int
	Failure  string // deadlock, step horizon, panic in a thread, or harness Fail()
	Deadlock bool
	Steps    int
	Threads  int
	Log      []string
	Trace    []string
	Now      time.Duration // virtual time elapsed
}

// Run executes body as thread "main" under the given choice prefix (choice 0 afterwards).
// The execution ends when main returns, on failure, on deadlock or at the step horizon; all other
// threads are then torn down.
//
//go:norace
func Run(prefix []int, maxSteps int, trace bool, body func()) (res Result) {
	s := &Sched{prefix: prefix, now: epoch0, maxSteps: maxSteps, tracing: trace, yield: newBaton()}
	if active != nil {
		panic("sched: nested Run")
	}
	active = s
	defer func() { active = nil }()
	for _, h := range OnRunStart {
		h()
	}
	mainT := s.spawn("main", body)
	deadlock := false
	for {
		if mainT.done || s.failure != "" {
			break
		}
		s.steps++
		if s.steps > s.maxSteps {
			s.failure = fmt.Sprintf("step horizon %d exceeded (livelock, or an execution longer than the horizon)", s.maxSteps)
			break
		}
		en := s.enabled()
		tm := s.pendingTimer()
		nopt := len(en)
		if tm != nil {
			nopt++ // the clock pseudo-thread is the last option
		}
		if nopt == 0 {
			deadlock = true
			s.failure = "deadlock: no thread enabled and no timer pending; blocked: " + strings.Join(s.blockedList(), "; ")
			if OnDeadlock != nil {
				if extra := OnDeadlock(); extra != "" {
					s.failure = extra + " -- " + s.failure
				}
			}
			break
		}
		c := 0
		if nopt > 1 {
			curRunnable := len(en) > 0 && en[0] == s.cur
			c = s.choose(nopt, curRunnable, 's')
			ci := -1
			if tm != nil {
				ci = len(en)
			}
			s.clockAt[len(s.clockAt)-1] = ci
			s.nprog[len(s.nprog)-1] = len(en)
		}
		if c == len(en) {
			if tm.when.After(s.now) {
				if OnAdvance != nil {
					OnAdvance(s.now, tm.when, len(en) == 0)
					if s.failure != "" {
						break
					}
				}
				s.now = tm.when
			}
			tm.dead = true
			if s.tracing {
				s.trace = append(s.trace, fmt.Sprintf("[%v clock] fires a timer", s.now.Sub(epoch0)))
			}
			tm.fire()
			continue
		}
		s.cur = en[c]
		s.cur.resume.signal()
		s.yield.wait()
	}
	// tear down: every remaining thread unwinds with a kill signal
	s.killed = true
	for _, t := range s.threads {
		if !t.done {
			s.cur = t
			t.resume.signal()
			s.yield.wait()
		}
	}
	for _, t := range s.threads {
		t.resume.release()
	}
	s.yield.release()
	return Result{Choices: s.choices, NOpts: s.nopts, Kinds: s.kinds, CurRun: s.curRun, ClockAt: s.clockAt, NProg: s.nprog, Failure: s.failure, Deadlock: deadlock,
		Steps: s.steps, Threads: len(s.threads), Log: s.Log, Trace: s.trace, Now: s.now.Sub(epoch0)}
}

//go:norace
func (s *Sched) spawn(name string, fn func()) *thread {
	t := &thread{id: len(s.threads), name: name, resume: newBaton(), doneCh: make(chan struct{})}
	if t.id > 0 {
		t.name = fmt.Sprintf("%s#%d", name, t.id)
	}
	s.threads = append(s.threads, t)
	go func() {
		defer func() {
			if r := recover(); r != nil {
				if _, ok := r.(killSignal); !ok && !s.killed && s.failure == "" {
					s.failure = fmt.Sprintf("panic in thread %s: %v", t.name, r)
				}
			}
			t.done = true
			close(t.doneCh) // a real synchronisation edge for harness joins (WaitAll)
			s.yield.signal()
		}()
		t.resume.wait()
		if s.killed {
			panic(killSignal{})
		}
		fn()
	}()
	return t
}

//go:norace
func (s *Sched) tracef(format string, a ...interface{}) {
	if s.tracing {
		s.trace = append(s.trace, fmt.Sprintf("[%v %s] ", s.now.Sub(epoch0), s.cur.name)+fmt.Sprintf(format, a...))
	}
}

// Go starts a new program thread (a plain goroutine when no execution is active).
//
//go:norace
func Go(name string, fn func()) {
	s := active
	if s == nil {
		go fn()
		return
	}
	if s.killed {
		return
	}
	t := s.spawn(name, fn)
	s.tracef("go %s", t.name)
	s.point()
}

//go:norace
func (s *Sched) enabled() []*thread {
	var en []*thread
	if c := s.cur; c != nil && !c.done && (c.blocked == nil || c.blocked()) {
		en = append(en, c)
	}
	for _, t := range s.threads {
		if t == s.cur || t.done {
			continue
		}
		if t.blocked == nil || t.blocked() {
			en = append(en, t)
		}
	}
	return en
}

//go:norace
func (s *Sched) pendingTimer() *timer {
	var best *timer
	live := s.timers[:0]
	for _, t := range s.timers {
		if t.dead {
			continue
		}
		live = append(live, t)
		if best == nil || t.when.Before(best.when) || (t.when.Equal(best.when) && t.seq < best.seq) {
			best = t
		}
	}
	s.timers = live
	return best
}

//go:norace
func (s *Sched) choose(n int, curRunnable bool, kind byte) int {
	i := len(s.choices)
	c := 0
	if i < len(s.prefix) {
		c = s.prefix[i]
		if c >= n {
			panic(fmt.Sprintf("sched: replay divergence at point %d: choice %d of %d options", i, c, n))
		}
	}
	s.choices = append(s.choices, c)
	s.nopts = append(s.nopts, n)
	s.curRun = append(s.curRun, curRunnable)
	s.kinds = append(s.kinds, kind)
	s.clockAt = append(s.clockAt, -1)
	s.nprog = append(s.nprog, 0)
	return c
}

// Choose is an explicit environment choice point (alternative 0 is the default answer).
//
//go:norace
func Choose(n int, what string) int {
	s := active
	if s == nil || s.killed || n <= 1 {
		return 0
	}
	c := s.choose(n, false, 'c')
	s.tracef("choose %s = %d of %d", what, c, n)
	return c
}

//go:norace
func (s *Sched) point() {
	t := s.cur
	s.yield.signal()
	t.resume.wait()
	if s.killed {
		panic(killSignal{})
	}
}

// Point is a scheduling point placed before a visible operation.
//
//go:norace
func Point(what string) {
	s := active
	if s == nil || s.killed {
		return
	}
	s.tracef("%s", what)
	s.point()
}

// Block parks the calling thread until cond() holds. cond is evaluated by the controller and must
// be a pure function of shim state.
//
//go:norace
func Block(what string, cond func() bool) {
	s := active
	if s == nil {
		panic("sched.Block outside an execution")
	}
	if s.killed {
		panic(killSignal{})
	}
	t := s.cur
	t.blocked = cond
	t.blockOn = what
	s.tracef("blocks on %s", what)
	s.yield.signal()
	t.resume.wait()
	t.blocked = nil
	t.blockOn = ""
	if s.killed {
		panic(killSignal{})
	}
}

//go:norace
func (s *Sched) blockedList() []string {
	var out []string
	for _, t := range s.threads {
		if !t.done && t.blocked != nil {
			out = append(out, t.name+" on "+t.blockOn)
		}
	}
	sort.Strings(out)
	return out
}

// Fail records a harness-detected failure and ends the execution.
//
//go:norace
func Fail(format string, a ...interface{}) {
	s := active
	if s == nil {
		panic(fmt.Sprintf(format, a...))
	}
	if s.killed {
		return
	}
	if s.failure == "" {
		s.failure = fmt.Sprintf(format, a...)
	}
	panic(killSignal{})
}

// AddTimer registers fire() at virtual time `when`. fire runs in the controller: it may only
// change shim state (it must not call Point/Block).  Returns a cancel func.
//
//go:norace
func AddTimer(when time.Time, fire func()) (cancel func()) {
	s := active
	t := &timer{when: when, seq: s.tseq, fire: fire}
	s.tseq++
	s.timers = append(s.timers, t)
	return func() { t.dead = true }
}

// SpawnFromTimer starts a thread from inside a timer's fire function (time.AfterFunc).
//
//go:norace
func SpawnFromTimer(name string, fn func()) {
	if s := active; s != nil && !s.killed {
		s.spawn(name, fn)
	}
}

// Logf appends to the observation log of the execution.
//
//go:norace
func Logf(format string, a ...interface{}) {
	if s := active; s != nil && !s.killed {
		s.Log = append(s.Log, fmt.Sprintf(format, a...))
	}
}

// Handle identifies a spawned harness thread.
type Handle struct{ t *thread }

// Done reports whether the thread has finished.
//
//go:norace
func (h Handle) Done() bool { return h.t == nil || h.t.done }

// BlockedOn returns what the thread is blocked on ("" if runnable or finished).
//
//go:norace
func (h Handle) BlockedOn() string {
	if h.t == nil || h.t.done || h.t.blocked == nil {
		return ""
	}
	return h.t.blockOn
}

// Name of the thread.
//
//go:norace
func (h Handle) Name() string { return h.t.name }

// Spawn starts a harness thread and returns its handle (a scheduling point, like Go).
//
//go:norace
func Spawn(name string, fn func()) Handle {
	s := active
	if s == nil {
		panic("sched.Spawn outside an execution")
	}
	if s.killed {
		panic(killSignal{})
	}
	t := s.spawn(name, fn)
	s.tracef("go %s", t.name)
	s.point()
	return Handle{t}
}

// Self returns the handle of the running thread.
//
//go:norace
func Self() Handle { return Handle{active.cur} }

// WaitAll blocks the caller until all given threads have finished.
//
//go:norace
func WaitAll(hs ...Handle) {
	Block("join", func() bool {
		for _, h := range hs {
			if !h.Done() {
				return false
			}
		}
		return true
	})
	for _, h := range hs {
		if h.t != nil {
			<-h.t.doneCh
		}
	}
}

// Quiesce blocks the caller until every other thread is blocked (not merely unscheduled) on something
// other than a virtual-time sleep, or finished: the system has nothing left to do by itself.
//
//go:norace
func Quiesce() {
	s := active
	me := s.cur
	Block("quiesce", func() bool {
		for _, t := range s.threads {
			if t == me || t.done {
				continue
			}
			if t.blocked == nil || t.blocked() || t.blockOn == "Sleep" {
				return false
			}
		}
		return true
	})
}

// OnAdvance, if set, is called on the controller just before virtual time moves from old to new
// (new > old); idle reports that no program thread was enabled (time passes because everybody waits).  It may inspect shim/harness state and call FailNow; it must not reach a scheduling point.
var OnAdvance func(old, new time.Time, idle bool)

// OnDeadlock, if set, is called on the controller when no thread is enabled and no timer is pending;
// its result is prepended to the failure message (harness classification).
var OnDeadlock func() string

// FailFromController records a failure from a controller-side hook (OnAdvance).
//
//go:norace
func FailFromController(format string, a ...interface{}) {
	if s := active; s != nil && s.failure == "" {
		s.failure = fmt.Sprintf(format, a...)
	}
}

// Elapsed is the virtual time since the start of the execution.
//
//go:norace
func Elapsed() time.Duration { return Now().Sub(epoch0) }

// Killed reports whether the execution is being torn down.
//
//go:norace
func Killed() bool { return active != nil && active.killed }

// CurName returns the running thread's name.
//
//go:norace
func CurName() string {
	if s := active; s != nil && s.cur != nil {
		return s.cur.name
	}
	return ""
}

// Step returns the number of scheduling steps so far (a logical timestamp for histories).
//
//go:norace
func Step() int {
	if s := active; s != nil {
		return s.steps
	}
	return 0
}
