package sched

import "fmt"

// Explorer: stateless depth-first enumeration of choice sequences with iterative deviation
// bounding.  A deviation is (a) switching away from a thread that could have continued
// (preemption), (b) firing a timer while a program thread could run, or (c) a non-default answer of
// an explicit Choose point.  Switches at blocking points and between equally non-running threads
// are free.

type Explorer struct {
	Bound int // maximum number of deviations per execution
	// FreeSwitchCost is the cost of a non-default choice at a point where the running thread cannot
	// continue (blocked or finished).  0 (default) = such switches are free, as in CHESS-style
	// preemption bounding; 1 = every departure from the canonical schedule counts, which keeps
	// programs with many mostly-blocked threads tractable (the bound then limits all deviations).
	FreeSwitchCost int
	MaxSteps       int
	MaxExecs       int64 // 0 = unlimited
	Stop           func() bool
	Body           func()
	// Check is called after every execution; returning false stops the exploration.
	Check func(r Result) bool

	// VerifyEvery > 0: every VerifyEvery-th execution (and every failing one) is run a second time
	// with the same choices; a different observation log or choice trace is an engine error (panic).
	VerifyEvery int64

	Execs      int64
	Points     int64
	MaxThreads int
	Complete   bool
}

//go:norace
func (e *Explorer) cost(r *Result, i, alt int) int {
	// alternative alt (>0) at point i
	if r.Kinds[i] == 'c' {
		return 1
	}
	if r.CurRun[i] {
		return 1 // preempting a runnable thread (or letting the clock run instead of it)
	}
	if alt == r.ClockAt[i] && r.NProg[i] > 0 {
		return 1 // a timer lands before an enabled program thread runs
	}
	return e.FreeSwitchCost // the running thread is blocked or finished: choosing who continues is free by default
}

// Run explores everything within Bound. Returns false if it was stopped early.
//
//go:norace
func (e *Explorer) Run() bool {
	e.Complete = true
	return e.explore(nil, 0)
}

//go:norace
func (e *Explorer) explore(prefix []int, used int) bool {
	if (e.Stop != nil && e.Stop()) || (e.MaxExecs > 0 && e.Execs >= e.MaxExecs) {
		e.Complete = false
		return false
	}
	r := Run(prefix, e.MaxSteps, false, e.Body)
	e.Execs++
	if e.VerifyEvery > 0 && (e.Execs%e.VerifyEvery == 1 || r.Failure != "") {
		r2 := Run(r.Choices, e.MaxSteps, false, e.Body)
		if r2.Failure != r.Failure || !sameInts(r2.Choices, r.Choices) || !sameStrs(r2.Log, r.Log) {
			panic(fmt.Sprintf("ENGINE-ERROR: replay of schedule %v is not deterministic:\n first: %q %v\n second: %q %v", r.Choices, r.Failure, r.Log, r2.Failure, r2.Log))
		}
	}
	e.Points += int64(len(r.Choices))
	if r.Threads > e.MaxThreads {
		e.MaxThreads = r.Threads
	}
	if e.Check != nil && !e.Check(r) {
		e.Complete = false
		return false
	}
	// deviations used by the prefix part were accounted by the caller; count along the suffix: the
	// suffix took only default choices, so it adds nothing.
	for i := len(prefix); i < len(r.Choices); i++ {
		for alt := 1; alt < r.NOpts[i]; alt++ {
			c := e.cost(&r, i, alt)
			if used+c > e.Bound {
				continue
			}
			np := make([]int, i+1)
			copy(np, r.Choices[:i])
			np[i] = alt
			if !e.explore(np, used+c) {
				return false
			}
		}
	}
	return true
}

//go:norace
func sameInts(a, b []int) bool {
	if len(a) != len(b) {
		return false
	}
	for i := range a {
		if a[i] != b[i] {
			return false
		}
	}
	return true
}

//go:norace
func sameStrs(a, b []string) bool {
	if len(a) != len(b) {
		return false
	}
	for i := range a {
		if a[i] != b[i] {
			return false
		}
	}
	return true
}
