package cons

import (
	"fmt"

	lref "verif/ref/lachesis"
)

// SleeperCfg bounds the family F-sleeper: sequential gossip (every event takes its creator's tip and
// the latest event of every other *active* validator) in three phases:
//
//  1. everybody emits a first event (in every rotation of the validator order); optionally one
//     validator forks right away (two events with the same self-parent, one of them never referenced
//     or referenced only by a chosen validator);
//  2. one validator (every choice) sleeps for K rounds (every K in MinSleep..MaxSleep) while the others gossip;
//  3. the sleeper returns with an event whose only other parent is ONE existing event (every choice of
//     that event, i.e. arbitrarily stale knowledge, including events of already decided frames), or with
//     the latest events of everybody; then everybody gossips for Tail rounds.
//
// It covers the situations a node that was offline creates: frame-jumping roots, references to old
// decided Atropoi, votes that arrive long after the election moved on.
type SleeperCfg struct {
	W        WeightVec
	Epoch    uint32
	MinSleep int
	MaxSleep int
	Tail     int
	Forks    bool // also the variants with an initial fork
	// DropInFirstRound: additionally, in phase 1, one validator does not see one other validator's first event
	// (every pair): creates split votes on the first frame
	DropInFirstRound bool
	Rots             int // number of rotations of the validator order used (0 = all)
	// TwoForkers: (with Forks) additionally every pair of different forkers, each fork branch referenced by
	// nobody or by one chosen validator
	TwoForkers bool
	// LateForks: (with Forks) additionally forks that happen during the sleeping phase: in round r (every r in
	// LateForkMin..LateForkMax, 1-based) the forker emits two siblings, the live one with the usual parents and a second one that
	// lacks the tip of one other validator (every choice): both siblings are usually roots of the same frame and
	// vote differently.  The second sibling is referenced by nobody or by one chosen validator.
	LateForks   bool
	LateForkMin int
	LateForkMax int
	OnlyLate    bool // drop the fork-free and the initial-fork variants (they belong to another configuration)
	// NestedForks: (with Forks) one forker with THREE branches: (a) an orphan sibling right after the first events
	// (never referenced) followed by a late fork on the surviving branch (the "fork of a fork" has LateForkMin..Max
	// as its round and is adopted by one chosen validator); (b) three different first events of the forker: one
	// never referenced, one adopted by a chosen validator, and the regular one.
	NestedForks bool
}

// GenSleeper enumerates the family.
func GenSleeper(cfg SleeperCfg, mine func(i int) bool, visit func(d *lref.DAG, desc string)) int {
	n := len(cfg.W.W)
	total, idx := 0, 0
	type oneFork struct{ forker, adopter, round, missing int }
	type forkMode []oneFork
	forkModes := []forkMode{nil}
	var lateSingles []oneFork
	if cfg.Forks {
		var singles []oneFork
		for f := 0; f < n; f++ {
			if uint64(cfg.W.W[f])*3 >= totalW(cfg.W.W) {
				continue
			}
			singles = append(singles, oneFork{f, -1, -1, -1})
			for a := 0; a < n; a++ {
				if a != f {
					singles = append(singles, oneFork{f, a, -1, -1})
				}
			}
		}
		if cfg.LateForks {
			for f := 0; f < n; f++ {
				if uint64(cfg.W.W[f])*3 >= totalW(cfg.W.W) {
					continue
				}
				for r := cfg.LateForkMin; r <= cfg.LateForkMax; r++ {
					for m := 0; m < n; m++ {
						if m == f {
							continue
						}
						lateSingles = append(lateSingles, oneFork{f, -1, r, m})
						for a := 0; a < n; a++ {
							if a != f {
								lateSingles = append(lateSingles, oneFork{f, a, r, m})
							}
						}
					}
				}
			}
		}
		var nested []forkMode
		if cfg.NestedForks {
			for f := 0; f < n; f++ {
				if uint64(cfg.W.W[f])*3 >= totalW(cfg.W.W) {
					continue
				}
				for a := 0; a < n; a++ {
					if a == f {
						continue
					}
					for r := cfg.LateForkMin; r <= cfg.LateForkMax; r++ {
						for m := 0; m < n; m++ {
							if m != f {
								nested = append(nested, forkMode{{f, -1, -1, -1}, {f, a, r, m}})
							}
						}
					}
					nested = append(nested, forkMode{{f, -1, -2, 0}, {f, a, -2, 1}})
				}
			}
		}
		if cfg.OnlyLate {
			forkModes, singles = nil, nil
		}
		for _, s1 := range singles {
			forkModes = append(forkModes, forkMode{s1})
		}
		for _, s1 := range lateSingles {
			forkModes = append(forkModes, forkMode{s1})
		}
		forkModes = append(forkModes, nested...)
		if cfg.TwoForkers {
			for _, s1 := range singles {
				for _, s2 := range singles {
					if s2.forker > s1.forker && uint64(cfg.W.W[s1.forker]+cfg.W.W[s2.forker])*3 < totalW(cfg.W.W) {
						forkModes = append(forkModes, forkMode{s1, s2})
					}
				}
			}
		}
	}
	type drop struct{ who, whom int }
	drops := []drop{{-1, -1}}
	if cfg.DropInFirstRound {
		for a := 0; a < n; a++ {
			for b := 0; b < n; b++ {
				if a != b {
					drops = append(drops, drop{a, b})
				}
			}
		}
	}
	rots := cfg.Rots
	if rots <= 0 || rots > n {
		rots = n
	}
	for rot := 0; rot < rots; rot++ {
		for _, fm := range forkModes {
			for _, dr := range drops {
				for sleeper := 0; sleeper < n; sleeper++ {
					for k := cfg.MinSleep; k <= cfg.MaxSleep; k++ {
						// build phases 1-2 once to learn how many events exist at the return
						var fks [][4]int
						late := false
						for _, f1 := range fm {
							fks = append(fks, [4]int{f1.forker, f1.adopter, f1.round, f1.missing})
							late = late || f1.round > k || (f1.round > 0 && f1.forker == sleeper)
						}
						if late {
							continue // the fork round lies beyond the sleeping phase, or the forker sleeps
						}
						base, tips, deads := buildSleeperPrefix(cfg, rot, fks, dr.who, dr.whom, sleeper, k)
						if base == nil {
							continue // degenerate late fork (see buildSleeperPrefix)
						}
						nb := base.N()
						for ret := -1; ret < nb; ret++ {
							isDead := false
							for _, dd := range deads {
								isDead = isDead || dd == ret
							}
							if ret >= 0 && (base.Events[ret].Creator == sleeper || isDead) {
								continue
							}
							idx++
							if mine != nil && !mine(idx) {
								continue
							}
							d := base.Clone()
							t := append([]int{}, tips...)
							// phase 3: the return event
							var others []int
							if ret < 0 {
								for u := 0; u < n; u++ {
									if u != sleeper && t[u] >= 0 {
										others = append(others, t[u])
									}
								}
							} else {
								others = []int{ret}
							}
							t[sleeper] = addEvent(d, sleeper, t[sleeper], others)
							for r := 0; r < cfg.Tail; r++ {
								for j := 0; j < n; j++ {
									v := (j + rot) % n
									var os []int
									for u := 0; u < n; u++ {
										if u != v && t[u] >= 0 {
											os = append(os, t[u])
										}
									}
									t[v] = addEvent(d, v, t[v], os)
								}
							}
							if d.N() > 64 {
								continue
							}
							d.AssignFrames()
							total++
							visit(d, fmt.Sprintf("sleeper rot=%d forks(forker,adopter,round,missing)=%v drop=%d>%d sleeper=%d sleep=%d return-parent=%d", rot, fks, dr.who, dr.whom, sleeper, k, ret))
						}
					}
				}
			}
		}
	}
	return total
}

func addEvent(d *lref.DAG, creator, sp int, others []int) int {
	ev := lref.Event{Creator: creator, Seq: 1}
	lam := 0
	if sp >= 0 {
		ev.Seq = d.Events[sp].Seq + 1
		ev.Parents = append(ev.Parents, sp)
		lam = d.Events[sp].Lamport
	}
	for _, p := range others {
		dup := false
		for _, q := range ev.Parents {
			dup = dup || q == p
		}
		if dup {
			continue
		}
		ev.Parents = append(ev.Parents, p)
		if d.Events[p].Lamport > lam {
			lam = d.Events[p].Lamport
		}
	}
	ev.Lamport = lam + 1
	d.Events = append(d.Events, ev)
	return len(d.Events) - 1
}

func buildSleeperPrefix(cfg SleeperCfg, rot int, forks [][4]int, dropWho, dropWhom, sleeper, k int) (*lref.DAG, []int, []int) {
	n := len(cfg.W.W)
	d := &lref.DAG{Weights: cfg.W.W, IDs: cfg.W.IDs, Epoch: cfg.Epoch}
	tips := make([]int, n)
	for i := range tips {
		tips[i] = -1
	}
	// phase 1: first events, sequential
	for j := 0; j < n; j++ {
		v := (j + rot) % n
		var os []int
		for u := 0; u < n; u++ {
			if u != v && tips[u] >= 0 && !(v == dropWho && u == dropWhom) {
				os = append(os, tips[u])
			}
		}
		tips[v] = addEvent(d, v, -1, os)
	}
	deads := make([]int, len(forks))
	for fi := range deads {
		deads[fi] = -1
	}
	for fi, fk := range forks {
		forker := fk[0]
		if fk[2] > 0 {
			continue // late fork: emitted in phase 2
		}
		if fk[2] == -2 {
			// one more FIRST event of the forker (no self-parent), with a single other parent chosen by fk[3], so
			// that several such siblings differ from each other and from the regular first event
			var os []int
			for u := 0; u < n; u++ {
				if u != forker && tips[u] >= 0 {
					os = append(os, tips[u])
				}
			}
			if len(os) == 0 {
				return nil, nil, nil
			}
			pick := os[fk[3]%len(os)]
			ev := d.Events[tips[forker]]
			if len(ev.Parents) == 1 && ev.Parents[0] == pick {
				return nil, nil, nil // would duplicate the regular first event
			}
			for _, x := range d.Events {
				if x.Creator == forker && x.Seq == 1 && len(x.Parents) == 1 && x.Parents[0] == pick {
					return nil, nil, nil // would duplicate an existing first event
				}
			}
			deads[fi] = addEvent(d, forker, -1, []int{pick})
			continue
		}
		// the forker emits two second events with the same self-parent: the first one is left behind
		var os []int
		for u := 0; u < n; u++ {
			if u != forker && tips[u] >= 0 {
				os = append(os, tips[u])
			}
		}
		first := os
		if len(first) > 1 {
			first = first[:1]
		}
		deads[fi] = addEvent(d, forker, tips[forker], first)
		tips[forker] = addEvent(d, forker, tips[forker], os)
	}
	// phase 2: the sleeper is silent for k rounds
	adopted := make([]bool, len(forks))
	for r := 0; r < k; r++ {
		for j := 0; j < n; j++ {
			v := (j + rot) % n
			if v == sleeper {
				continue
			}
			var os []int
			for u := 0; u < n; u++ {
				if u != v && u != sleeper && tips[u] >= 0 {
					os = append(os, tips[u])
				}
			}
			if r == 0 && tips[sleeper] >= 0 {
				os = append(os, tips[sleeper]) // the sleeper's latest event is known
			}
			for fi, fk := range forks {
				if !adopted[fi] && v == fk[1] && deads[fi] >= 0 {
					os = append(os, deads[fi])
					adopted[fi] = true
				}
			}
			for fi, fk := range forks {
				if fk[2] == r+1 && fk[0] == v {
					// late fork: a sibling that lacks the tip of validator fk[3]
					var fo []int
					for _, p := range os {
						if d.Events[p].Creator != fk[3] {
							fo = append(fo, p)
						}
					}
					if len(fo) == len(os) {
						// the validator whose tip should be missing is not among the parents (it sleeps): the
						// sibling would be an exact duplicate of the live event, i.e. not a second event at all
						return nil, nil, nil
					}
					deads[fi] = addEvent(d, v, tips[v], fo)
				}
			}
			tips[v] = addEvent(d, v, tips[v], os)
		}
	}
	return d, tips, deads
}
