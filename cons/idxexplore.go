package cons

import (
	"fmt"
	"github.com/Fantom-foundation/lachesis-base/inter/dag"

	"github.com/Fantom-foundation/lachesis-base/hash"
	"github.com/Fantom-foundation/lachesis-base/inter/idx"
	"github.com/Fantom-foundation/lachesis-base/utils/cachescale"
	"github.com/Fantom-foundation/lachesis-base/vecfc"
	"verif/core"
	lref "verif/ref/lachesis"
)

// IndexFamilies returns the DAG families for the index-only checks (C05/C06).
func IndexFamilies(quick bool) []GenCfg {
	var out []GenCfg
	add := func(w WeightVec, n, forks int, prev bool) {
		out = append(out, GenCfg{Weights: w.W, IDs: w.IDs, Epoch: 1, N: n, ForkBudget: forks, PrevParents: prev, MaxLevelSet: 150000})
	}
	if quick {
		add(WV(1, 1), 6, 0, true)
		add(WV(1, 1), 5, 2, false)
		add(WV(3, 1), 5, 1, false)
		add(WV(1, 1, 1), 5, 0, false)
		add(WV(1, 1, 1), 5, 1, false)
		add(WV(2, 1, 1), 5, 1, false)
		add(WV(1, 1, 1, 1), 5, 1, false)
		// a validator that forks twice (and may see its own first fork before forking again)
		out = append(out, GenCfg{Weights: WV(1, 1).W, IDs: WV(1, 1).IDs, Epoch: 1, N: 6, ForkBudget: 2, MaxLevelSet: 150000, UseForkerOnly: true, ForkerOnly: 0, TwinForks: true})
	} else {
		out = append(out, GenCfg{Weights: WV(1, 1).W, IDs: WV(1, 1).IDs, Epoch: 1, N: 8, ForkBudget: 2, MaxLevelSet: 150000, UseForkerOnly: true, ForkerOnly: 0, TwinForks: true})
		add(WV(1, 1), 8, 0, true)
		add(WV(1, 1), 6, 2, true)
		add(WV(3, 1), 6, 2, false)
		add(WV(1, 1, 1), 6, 0, true)
		add(WV(1, 1, 1), 6, 1, false)
		add(WV(1, 1, 1), 6, 2, false)
		add(WV(2, 1, 1), 6, 2, false)
		add(WV(1, 2, 3), 6, 1, false)
		add(WV(1, 1, 1, 1), 6, 1, false)
		add(WV(2, 1, 1, 1), 5, 2, false)
	}
	return out
}

// ExploreIndex runs the index-only exploration. report = "fc" (C05) or "clock" (C06) selects which
// oracle's mismatches are reported as violations (both are evaluated).
func ExploreIndex(c *core.Ctx, report string) {
	quick := c.Quick()
	cfgs := []struct {
		name string
		cfg  vecfc.IndexConfig
	}{
		{"lite", vecfc.LiteConfig()},
		{"tiny", vecfc.IndexConfig{Caches: vecfc.IndexCacheConfig{ForklessCausePairs: 1, HighestBeforeSeqSize: 1, LowestAfterSeqSize: 1}}},
		{"zero", vecfc.IndexConfig{Caches: vecfc.IndexCacheConfig{}}},
		{"default", vecfc.DefaultConfig(cachescale.Identity)},
	}
	modes := []string{"plain", "drop", "reset", "prevepoch", "crossreset"}
	item := 0
	capHit := false
	visitDAG := func(d *lref.DAG) {
		item++
		if !c.Mine(item) || c.OutOfBudget() {
			return
		}
		c.Count("dags", 1)
		if d.ForkersWeight(d.Full()) > 0 {
			c.Count("dags_with_forks", 1)
		}
		evs, byID := Events(d)
		vals := Validators(d)
		order := d.CanonOrder()
		_ = byID
		// which config/mode for this DAG: all combinations on small DAGs, rotating otherwise
		type variant struct {
			ci   int
			mode string
		}
		var variants []variant
		if d.N() <= 4 {
			for ci := range cfgs {
				for _, m := range modes {
					variants = append(variants, variant{ci, m})
				}
			}
		} else {
			variants = append(variants, variant{item % len(cfgs), modes[(item/len(cfgs))%len(modes)]}, variant{(item + 1) % len(cfgs), "plain"})
		}
		for _, vr := range variants {
			cfg, mode := cfgs[vr.ci], vr.mode
			ideals, edges, complete := Lattice(d, 20000, c.OutOfBudget, func(path []int, e int, nm uint64) bool {
				node := NewIdxNode(vals, cfg.cfg)
				if mode == "prevepoch" {
					node = NewIdxNodeAfterSmallerEpoch(vals, cfg.cfg)
				}
				seq := append(append([]int{}, path...), e)
				rep := func() interface{} {
					return map[string]interface{}{"dag": d.String(), "order": seq, "index_config": cfg.name, "mode": mode}
				}
				for _, x := range seq {
					if crit := node.Add(evs[x], mode); crit != "" {
						c.Violation("index/add-failed", rep(), "indexing e%d failed (%s) for %v", x, crit, rep())
						return false
					}
				}
				check := func(n *IdxNode, temp string) bool {
					for _, a := range seq {
						for _, b := range seq {
							got, crit := n.FC(evs[a].ID(), evs[b].ID())
							want := d.FC(a, b)
							c.Count("fc_queries", 1)
							if want {
								c.Count("fc_true", 1)
							}
							if crit != "" || got != want {
								if report == "fc" {
									c.Violation(fmt.Sprintf("fc/%s/got=%v", temp, got), rep(), "ForklessCause(e%d,e%d)=%v %s, graph definition says %v [%s caches] %v", a, b, got, crit, want, temp, rep())
									return false
								}
								// the other oracle's mismatch: counted, and this oracle is still evaluated
								c.Count("other_oracle_mismatches", 1)
							}
						}
						// merged clock
						var hb *vecfc.HighestBeforeSeq
						if pv := catch(func() { hb = n.Index.GetMergedHighestBefore(evs[a].ID()) }); pv != nil || hb == nil {
							if report == "clock" {
								c.Violation("clock/panic", rep(), "GetMergedHighestBefore(e%d) failed: %v %v", a, pv, rep())
							}
							return false
						}
						for pos, v := range order {
							fork, s := d.Clock(a, v)
							g := hb.Get(idx.Validator(pos))
							c.Count("clock_cells", 1)
							if fork {
								c.Count("clock_fork_cells", 1)
							}
							if g.IsForkDetected() != fork || (!fork && int(g.Seq) != s) {
								if report == "clock" {
									c.Violation(fmt.Sprintf("clock/%s/fork=%v", temp, g.IsForkDetected()), rep(), "merged clock of e%d for validator #%d (id %d): fork=%v seq=%d, graph says fork=%v seq=%d [%s caches] %v", a, v, d.IDs[v], g.IsForkDetected(), g.Seq, fork, s, temp, rep())
									return false
								}
								c.Count("other_oracle_mismatches", 1)
							}
						}
					}
					return true
				}
				if mode == "crossreset" {
					// an alternative parents-first order of the same event set: always take the enabled event with the
					// largest index (the lattice paths prefer small ones)
					var alt []dag.Event
					done := uint64(0)
					for len(alt) < len(seq) {
						for x := len(evs) - 1; x >= 0; x-- {
							if nm&(1<<uint(x)) == 0 || done&(1<<uint(x)) != 0 {
								continue
							}
							ok := true
							for _, p := range d.Events[x].Parents {
								ok = ok && done&(1<<uint(p)) != 0
							}
							if ok {
								alt = append(alt, evs[x])
								done |= 1 << uint(x)
								break
							}
						}
					}
					if crit := node.CrossReset(alt); crit != "" {
						c.Violation("index/cross-reset-failed", rep(), "re-indexing into a second database and resetting back failed: %s %v", crit, rep())
						return false
					}
				}
				if !check(node, "warm") {
					return false
				}
				if !check(node, "warm-again") { // answers must not depend on earlier queries
					return false
				}
				if !check(node.Cold(), "cold") {
					return false
				}
				return true
			})
			c.Count("states", int64(ideals))
			c.Count("transitions", int64(edges))
			c.Count("traces_validated_against_impl", int64(edges))
			if !complete {
				capHit = true
			}
		}
		if item%5000 == 1 {
			c.Sample(map[string]interface{}{"dag": d.String(), "orders": CountOrders(d, 100000)})
		}
	}
	for _, fam := range IndexFamilies(quick) {
		if _, capped := GenAll(fam, 2, visitDAG); capped {
			capHit = true
		}
	}
	for _, w := range []WeightVec{WV(1, 1, 1), WV(1, 2, 1)} {
		n := GenStarFork(w, 1, !quick, visitDAG)
		if c.Lead() {
			c.Count("star_fork_dags_generated", int64(n))
		}
	}
	c.Set("exhaustive", !capHit && !c.Capped())
	var _ hash.Event
}
