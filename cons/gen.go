package cons

import (
	lref "verif/ref/lachesis"
)

// GenCfg bounds the exhaustive DAG family F-all / F-fork.
type GenCfg struct {
	Weights     []uint32
	IDs         []uint32
	Epoch       uint32
	N           int  // number of events
	ForkBudget  int  // number of fork events (events whose self-parent is not a tip / is missing)
	PrevParents bool // other-parent menu also offers the self-parent of the other validator's tip
	MaxLevelSet int  // cap on the number of DAGs kept per level (0 = none); hitting it is reported
	// SubsetParents: when another validator has several tips (a fork), an event may take any non-empty
	// subset of them as parents (so a single event can observe the fork directly).
	SubsetParents bool
	// ForkerOnly >= 0 restricts fork events to that validator position; -1/0 value semantics: see UseForkerOnly.
	ForkerOnly    int
	UseForkerOnly bool
	// MaxOwn bounds the number of events per validator (0 = no bound).
	MaxOwn int
	// TwinForks additionally offers fork events that agree with an existing event in creator, seq and parents
	// (they count against ForkBudget)
	TwinForks bool
}

type genState struct {
	d     *lref.DAG
	forks int
}

// tips of validator v: its events that are not the self-parent of another event of v.
func tips(d *lref.DAG, v int) []int {
	isSP := map[int]bool{}
	for i := range d.Events {
		if d.Events[i].Creator == v {
			if sp := d.SelfParent(i); sp >= 0 {
				isSP[sp] = true
			}
		}
	}
	var out []int
	for i := range d.Events {
		if d.Events[i].Creator == v && !isSP[i] {
			out = append(out, i)
		}
	}
	return out
}

func ownEvents(d *lref.DAG, v int) []int {
	var out []int
	for i := range d.Events {
		if d.Events[i].Creator == v {
			out = append(out, i)
		}
	}
	return out
}

// successors enumerates every DAG obtained by adding one event.
func successors(s genState, cfg GenCfg, emit func(genState)) {
	d := s.d
	n := len(d.Weights)
	for v := 0; v < n; v++ {
		own := ownEvents(d, v)
		if cfg.MaxOwn > 0 && len(own) >= cfg.MaxOwn {
			continue
		}
		tp := tips(d, v)
		type spOpt struct {
			sp   int
			fork bool
		}
		var sps []spOpt
		if len(own) == 0 {
			sps = append(sps, spOpt{-1, false})
		} else {
			isTip := map[int]bool{}
			for _, t := range tp {
				isTip[t] = true
				sps = append(sps, spOpt{t, false})
			}
			if s.forks < cfg.ForkBudget && (!cfg.UseForkerOnly || cfg.ForkerOnly == v) {
				sps = append(sps, spOpt{-1, true})
				for _, o := range own {
					if !isTip[o] {
						sps = append(sps, spOpt{o, true})
					}
				}
			}
		}
		// other-parent menus
		// a menu entry is a list of parents taken from one other validator
		menus := make([][][]int, 0, n-1)
		for u := 0; u < n; u++ {
			if u == v {
				continue
			}
			m := [][]int{nil}
			ut := tips(d, u)
			for _, t := range ut {
				m = append(m, []int{t})
				if cfg.PrevParents {
					if sp := d.SelfParent(t); sp >= 0 {
						m = append(m, []int{sp})
					}
				}
			}
			if cfg.SubsetParents && len(ut) > 1 {
				for mask := 1; mask < 1<<uint(len(ut)); mask++ {
					if mask&(mask-1) == 0 {
						continue // singletons are already there
					}
					var sub []int
					for k, t := range ut {
						if mask&(1<<uint(k)) != 0 {
							sub = append(sub, t)
						}
					}
					m = append(m, sub)
				}
			}
			menus = append(menus, m)
		}
		for _, so := range sps {
			choice := make([][]int, len(menus))
			var rec func(k int)
			rec = func(k int) {
				if k == len(menus) {
					ev := lref.Event{Creator: v, Seq: 1}
					lam := 0
					if so.sp >= 0 {
						ev.Seq = d.Events[so.sp].Seq + 1
						ev.Parents = append(ev.Parents, so.sp)
						lam = d.Events[so.sp].Lamport
					}
					for _, ps := range choice {
						for _, p := range ps {
							ev.Parents = append(ev.Parents, p)
							if d.Events[p].Lamport > lam {
								lam = d.Events[p].Lamport
							}
						}
					}
					if ev.Seq > 1 && len(ev.Parents) == 0 {
						return
					}
					ev.Lamport = lam + 1
					// an event identical in structure to an existing one is the same event, unless the family allows
					// twin forks (same creator, seq and parents, different payload) and the fork budget permits one
					twins := 0
					for _, old := range d.Events {
						if old.Creator == ev.Creator && old.Seq == ev.Seq && sameParents(old.Parents, ev.Parents, ev.Seq > 1) {
							twins++
						}
					}
					if twins > 0 {
						if !cfg.TwinForks || s.forks >= cfg.ForkBudget || (cfg.UseForkerOnly && cfg.ForkerOnly != v) {
							return
						}
						ev.Salt = twins
					}
					nd := d.Clone()
					nd.Events = append(nd.Events, ev)
					f := s.forks
					if so.fork || twins > 0 {
						f++
					}
					emit(genState{nd, f})
					return
				}
				for _, p := range menus[k] {
					choice[k] = p
					rec(k + 1)
				}
			}
			rec(0)
		}
	}
}

// GenAll enumerates, level by level, every DAG of the family with 1..N events (deduplicated by
// content) and calls visit for each DAG with frames assigned (maximal allowed = what Build assigns).
// It returns the number of DAGs per level and whether a level cap was hit.
func GenAll(cfg GenCfg, minEvents int, visit func(d *lref.DAG)) (perLevel []int, capped bool) {
	level := []genState{{&lref.DAG{Weights: cfg.Weights, IDs: cfg.IDs, Epoch: cfg.Epoch}, 0}}
	for k := 1; k <= cfg.N; k++ {
		seen := map[string]bool{}
		var next []genState
		for _, s := range level {
			successors(s, cfg, func(ns genState) {
				if cfg.MaxLevelSet > 0 && len(next) >= cfg.MaxLevelSet {
					capped = true
					return
				}
				key := ns.d.Key()
				if seen[key] {
					return
				}
				seen[key] = true
				next = append(next, ns)
			})
		}
		perLevel = append(perLevel, len(next))
		level = next
		if k >= minEvents {
			for _, s := range level {
				d := s.d.Clone()
				d.AssignFrames()
				visit(d)
			}
		}
	}
	return
}

func sameParents(a, b []int, selfParentFirst bool) bool {
	if len(a) != len(b) {
		return false
	}
	if selfParentFirst && len(a) > 0 && a[0] != b[0] {
		return false
	}
	in := map[int]int{}
	for _, x := range a {
		in[x]++
	}
	for _, x := range b {
		in[x]--
	}
	for _, v := range in {
		if v != 0 {
			return false
		}
	}
	return true
}

// GenStarFork enumerates a structured multi-fork family: validator 0 (X) creates THREE conflicting
// events of the same sequence number (seq 1, or seq 2 on top of x1), distinguished by which of the
// base events y1/z1 they reference; observers Y and Z then take every subset of X's branches as
// parents (so one event can observe two or three branches at once, before any of its ancestors did).
func GenStarFork(w WeightVec, epoch uint32, withTail bool, visit func(d *lref.DAG)) int {
	count := 0
	subsets := [][]int{{}, {0}, {1}, {0, 1}} // over base events y1 (index 0), z1 (index 1)
	for forkSeq := 1; forkSeq <= 2; forkSeq++ {
		for skip := 0; skip < 4; skip++ { // which of the 4 subsets is not used by a branch
			base := &lref.DAG{Weights: w.W, IDs: w.IDs, Epoch: epoch}
			add := func(d *lref.DAG, creator, sp int, others []int) int {
				ev := lref.Event{Creator: creator, Seq: 1}
				lam := 0
				if sp >= 0 {
					ev.Seq = d.Events[sp].Seq + 1
					ev.Parents = append(ev.Parents, sp)
					lam = d.Events[sp].Lamport
				}
				for _, p := range others {
					ev.Parents = append(ev.Parents, p)
					if d.Events[p].Lamport > lam {
						lam = d.Events[p].Lamport
					}
				}
				ev.Lamport = lam + 1
				d.Events = append(d.Events, ev)
				return len(d.Events) - 1
			}
			y1 := add(base, 1, -1, nil)
			z1 := add(base, 2, -1, nil)
			x1 := -1
			if forkSeq == 2 {
				x1 = add(base, 0, -1, nil)
			}
			var br []int
			for si, sub := range subsets {
				if si == skip {
					continue
				}
				var others []int
				for _, b := range sub {
					others = append(others, []int{y1, z1}[b])
				}
				if forkSeq == 1 && len(others) == 0 {
					// seq-1 event without parents: fine, it is the "plain" first event
				}
				br = append(br, add(base, 0, x1, others))
			}
			for ym := 1; ym < 8; ym++ {
				for yz := 0; yz < 2; yz++ {
					d1 := base.Clone()
					var ps []int
					for k := 0; k < 3; k++ {
						if ym&(1<<uint(k)) != 0 {
							ps = append(ps, br[k])
						}
					}
					if yz == 1 {
						ps = append(ps, z1)
					}
					y2 := add(d1, 1, y1, ps)
					for zm := 0; zm < 8; zm++ {
						for zy := 0; zy < 2; zy++ {
							if zm == 0 && zy == 0 {
								continue
							}
							d2 := d1.Clone()
							var zp []int
							for k := 0; k < 3; k++ {
								if zm&(1<<uint(k)) != 0 {
									zp = append(zp, br[k])
								}
							}
							if zy == 1 {
								zp = append(zp, y2)
							}
							z2 := add(d2, 2, z1, zp)
							tails := [][]int{nil}
							if withTail {
								tails = [][]int{nil, {z2}}
							}
							for ti, tl := range tails {
								d3 := d2.Clone()
								if ti > 0 || withTail {
									add(d3, 1, y2, tl)
								}
								d3.AssignFrames()
								count++
								visit(d3)
							}
						}
					}
				}
			}
		}
	}
	return count
}
