package cons

import (
	lref "verif/ref/lachesis"
)

// GenCfg bounds the exhaustive DAG family F-all / F-fork.
type GenCfg struct {
	Weights     []uint32
	IDs         []uint32
	Epoch       uint32
	N           int  // number of events
	ForkBudget  int  // number of fork events (events whose self-parent is not a tip / is missing)
	PrevParents bool // other-parent menu also offers the self-parent of the other validator's tip
	MaxLevelSet int  // cap on the number of DAGs kept per level (0 = none); hitting it is reported
}

type genState struct {
	d     *lref.DAG
	forks int
}

// tips of validator v: its events that are not the self-parent of another event of v.
func tips(d *lref.DAG, v int) []int {
	isSP := map[int]bool{}
	for i := range d.Events {
		if d.Events[i].Creator == v {
			if sp := d.SelfParent(i); sp >= 0 {
				isSP[sp] = true
			}
		}
	}
	var out []int
	for i := range d.Events {
		if d.Events[i].Creator == v && !isSP[i] {
			out = append(out, i)
		}
	}
	return out
}

func ownEvents(d *lref.DAG, v int) []int {
	var out []int
	for i := range d.Events {
		if d.Events[i].Creator == v {
			out = append(out, i)
		}
	}
	return out
}

// successors enumerates every DAG obtained by adding one event.
func successors(s genState, cfg GenCfg, emit func(genState)) {
	d := s.d
	n := len(d.Weights)
	for v := 0; v < n; v++ {
		own := ownEvents(d, v)
		tp := tips(d, v)
		type spOpt struct {
			sp   int
			fork bool
		}
		var sps []spOpt
		if len(own) == 0 {
			sps = append(sps, spOpt{-1, false})
		} else {
			isTip := map[int]bool{}
			for _, t := range tp {
				isTip[t] = true
				sps = append(sps, spOpt{t, false})
			}
			if s.forks < cfg.ForkBudget {
				sps = append(sps, spOpt{-1, true})
				for _, o := range own {
					if !isTip[o] {
						sps = append(sps, spOpt{o, true})
					}
				}
			}
		}
		// other-parent menus
		menus := make([][]int, 0, n-1)
		for u := 0; u < n; u++ {
			if u == v {
				continue
			}
			m := []int{-1}
			for _, t := range tips(d, u) {
				m = append(m, t)
				if cfg.PrevParents {
					if sp := d.SelfParent(t); sp >= 0 {
						m = append(m, sp)
					}
				}
			}
			menus = append(menus, m)
		}
		for _, so := range sps {
			choice := make([]int, len(menus))
			var rec func(k int)
			rec = func(k int) {
				if k == len(menus) {
					ev := lref.Event{Creator: v, Seq: 1}
					lam := 0
					if so.sp >= 0 {
						ev.Seq = d.Events[so.sp].Seq + 1
						ev.Parents = append(ev.Parents, so.sp)
						lam = d.Events[so.sp].Lamport
					}
					for _, p := range choice {
						if p >= 0 {
							ev.Parents = append(ev.Parents, p)
							if d.Events[p].Lamport > lam {
								lam = d.Events[p].Lamport
							}
						}
					}
					if ev.Seq > 1 && len(ev.Parents) == 0 {
						return
					}
					ev.Lamport = lam + 1
					nd := d.Clone()
					nd.Events = append(nd.Events, ev)
					f := s.forks
					if so.fork {
						f++
					}
					emit(genState{nd, f})
					return
				}
				for _, p := range menus[k] {
					choice[k] = p
					rec(k + 1)
				}
			}
			rec(0)
		}
	}
}

// GenAll enumerates, level by level, every DAG of the family with 1..N events (deduplicated by
// content) and calls visit for each DAG with frames assigned (maximal allowed = what Build assigns).
// It returns the number of DAGs per level and whether a level cap was hit.
func GenAll(cfg GenCfg, minEvents int, visit func(d *lref.DAG)) (perLevel []int, capped bool) {
	level := []genState{{&lref.DAG{Weights: cfg.Weights, IDs: cfg.IDs, Epoch: cfg.Epoch}, 0}}
	for k := 1; k <= cfg.N; k++ {
		seen := map[string]bool{}
		var next []genState
		for _, s := range level {
			successors(s, cfg, func(ns genState) {
				if cfg.MaxLevelSet > 0 && len(next) >= cfg.MaxLevelSet {
					capped = true
					return
				}
				key := ns.d.Key()
				if seen[key] {
					return
				}
				seen[key] = true
				next = append(next, ns)
			})
		}
		perLevel = append(perLevel, len(next))
		level = next
		if k >= minEvents {
			for _, s := range level {
				d := s.d.Clone()
				d.AssignFrames()
				visit(d)
			}
		}
	}
	return
}
