package cons

import (
	"fmt"

	"github.com/Fantom-foundation/lachesis-base/hash"
	"github.com/Fantom-foundation/lachesis-base/inter/dag"
	"github.com/Fantom-foundation/lachesis-base/inter/dag/tdag"
	"github.com/Fantom-foundation/lachesis-base/inter/idx"
	"github.com/Fantom-foundation/lachesis-base/inter/pos"
	"github.com/Fantom-foundation/lachesis-base/vecfc"
	"verif/ref/kv"
)

// IdxNode drives a bare vecfc.Index (no consensus) over a harness-owned database.
type IdxNode struct {
	DB     *kv.Store
	Index  *vecfc.Index
	Vals   *pos.Validators
	Cfg    vecfc.IndexConfig
	Events map[hash.Event]dag.Event
}

func (n *IdxNode) getEvent(id hash.Event) dag.Event {
	e, ok := n.Events[id]
	if !ok {
		return nil
	}
	return e
}

func NewIdxNode(vals *pos.Validators, cfg vecfc.IndexConfig) *IdxNode {
	n := &IdxNode{DB: kv.New(), Vals: vals, Cfg: cfg, Events: map[hash.Event]dag.Event{}}
	n.Index = vecfc.NewIndex(func(err error) { panic(critPanic{err}) }, cfg)
	n.Index.Reset(vals, n.DB, n.getEvent)
	return n
}

// NewIdxNodeAfterSmallerEpoch returns a node whose Index instance has already served an epoch with a
// smaller validator group (two events of the first validator, flushed) and was then Reset to vals.
func NewIdxNodeAfterSmallerEpoch(vals *pos.Validators, cfg vecfc.IndexConfig) *IdxNode {
	n := &IdxNode{DB: kv.New(), Vals: vals, Cfg: cfg, Events: map[hash.Event]dag.Event{}}
	n.Index = vecfc.NewIndex(func(err error) { panic(critPanic{err}) }, cfg)
	b := pos.NewBuilder()
	first := vals.SortedIDs()[0]
	b.Set(first, 1)
	old := b.Build()
	oldDB := kv.New()
	n.Index.Reset(old, oldDB, n.getEvent)
	var prev *tdag.TestEvent
	for i := 1; i <= 2; i++ {
		e := &tdag.TestEvent{}
		e.SetEpoch(0)
		e.SetCreator(first)
		e.SetSeq(idx.Event(i))
		e.SetLamport(idx.Lamport(i))
		if prev != nil {
			e.SetParents(hash.Events{prev.ID()})
		}
		var tail [24]byte
		tail[0], tail[1] = 0xee, byte(i)
		e.SetID(tail)
		n.Events[e.ID()] = e
		if err := n.Index.Add(e); err != nil {
			panic(err)
		}
		n.Index.Flush()
		prev = e
	}
	n.Index.Reset(vals, n.DB, n.getEvent)
	return n
}

// CrossReset re-indexes the given events (an alternative parents-first order of the same set) into a second
// database through the SAME Index instance and then resets the instance back to the node's own database: the
// instance's caches must not carry anything over from the other database (branch numbering may differ there).
func (n *IdxNode) CrossReset(alt []dag.Event) (crit string) {
	pv := catch(func() {
		other := kv.New()
		// the other database is indexed under another weight distribution of the same members (one of the
		// lightest made a dictator): forkless-cause answers computed there must not survive the Reset back
		otherVals := n.Vals
		if ids := n.Vals.SortedIDs(); len(ids) > 1 {
			light := ids[0]
			for _, id := range ids {
				if n.Vals.Get(id) <= n.Vals.Get(light) {
					light = id
				}
			}
			b := pos.NewBuilder()
			for _, id := range ids {
				b.Set(id, n.Vals.Get(id))
			}
			b.Set(light, 3*n.Vals.TotalWeight())
			otherVals = b.Build()
		}
		n.Index.Reset(otherVals, other, n.getEvent)
		for _, e := range alt {
			if err := n.Index.Add(e); err != nil {
				panic(err)
			}
			n.Index.Flush()
		}
		// warm the caches with the other database's vectors
		for _, e := range alt {
			n.Index.GetMergedHighestBefore(e.ID())
			for _, b := range alt {
				n.Index.ForklessCause(e.ID(), b.ID())
			}
		}
		n.Index.Reset(n.Vals, n.DB, n.getEvent)
	})
	if pv != nil {
		return fmt.Sprint(pv)
	}
	return ""
}

// Cold returns a fresh index over a copy of the persisted data (cold caches).
func (n *IdxNode) Cold() *IdxNode {
	m := &IdxNode{DB: copyStore(n.DB), Vals: n.Vals, Cfg: n.Cfg, Events: n.Events}
	m.Index = vecfc.NewIndex(func(err error) { panic(critPanic{err}) }, n.Cfg)
	m.Index.Reset(n.Vals, m.DB, m.getEvent)
	return m
}

// Add indexes one event. mode: "plain" = Add+Flush; "drop" = Add, DropNotFlushed, Add, Flush;
// "reset" = Add, Reset over the same DB, Add, Flush.
func (n *IdxNode) Add(e dag.Event, mode string) (crit string) {
	n.Events[e.ID()] = e
	pv := catch(func() {
		switch mode {
		case "drop":
			if err := n.Index.Add(e); err != nil {
				panic(err)
			}
			n.Index.DropNotFlushed()
		case "reset":
			if err := n.Index.Add(e); err != nil {
				panic(err)
			}
			n.Index.Reset(n.Vals, n.DB, n.getEvent)
		}
		if err := n.Index.Add(e); err != nil {
			panic(err)
		}
		n.Index.Flush()
	})
	if pv != nil {
		return fmt.Sprint(pv)
	}
	return ""
}

// FC queries the index; a crit/panic is returned as text.
func (n *IdxNode) FC(a, b hash.Event) (res bool, crit string) {
	pv := catch(func() { res = n.Index.ForklessCause(a, b) })
	if pv != nil {
		crit = fmt.Sprint(pv)
	}
	return
}

// Catch exposes the crit-aware recover helper.
func Catch(f func()) interface{} { return catch(f) }
