package cons

import (
	"fmt"

	"github.com/Fantom-foundation/lachesis-base/hash"
	"github.com/Fantom-foundation/lachesis-base/inter/dag"
	"github.com/Fantom-foundation/lachesis-base/inter/pos"
	"github.com/Fantom-foundation/lachesis-base/vecfc"
	"verif/ref/kv"
)

// IdxNode drives a bare vecfc.Index (no consensus) over a harness-owned database.
type IdxNode struct {
	DB     *kv.Store
	Index  *vecfc.Index
	Vals   *pos.Validators
	Cfg    vecfc.IndexConfig
	Events map[hash.Event]dag.Event
}

func (n *IdxNode) getEvent(id hash.Event) dag.Event {
	e, ok := n.Events[id]
	if !ok {
		return nil
	}
	return e
}

func NewIdxNode(vals *pos.Validators, cfg vecfc.IndexConfig) *IdxNode {
	n := &IdxNode{DB: kv.New(), Vals: vals, Cfg: cfg, Events: map[hash.Event]dag.Event{}}
	n.Index = vecfc.NewIndex(func(err error) { panic(critPanic{err}) }, cfg)
	n.Index.Reset(vals, n.DB, n.getEvent)
	return n
}

// Cold returns a fresh index over a copy of the persisted data (cold caches).
func (n *IdxNode) Cold() *IdxNode {
	m := &IdxNode{DB: copyStore(n.DB), Vals: n.Vals, Cfg: n.Cfg, Events: n.Events}
	m.Index = vecfc.NewIndex(func(err error) { panic(critPanic{err}) }, n.Cfg)
	m.Index.Reset(n.Vals, m.DB, m.getEvent)
	return m
}

// Add indexes one event. mode: "plain" = Add+Flush; "drop" = Add, DropNotFlushed, Add, Flush;
// "reset" = Add, Reset over the same DB, Add, Flush.
func (n *IdxNode) Add(e dag.Event, mode string) (crit string) {
	n.Events[e.ID()] = e
	pv := catch(func() {
		switch mode {
		case "drop":
			if err := n.Index.Add(e); err != nil {
				panic(err)
			}
			n.Index.DropNotFlushed()
		case "reset":
			if err := n.Index.Add(e); err != nil {
				panic(err)
			}
			n.Index.Reset(n.Vals, n.DB, n.getEvent)
		}
		if err := n.Index.Add(e); err != nil {
			panic(err)
		}
		n.Index.Flush()
	})
	if pv != nil {
		return fmt.Sprint(pv)
	}
	return ""
}

// FC queries the index; a crit/panic is returned as text.
func (n *IdxNode) FC(a, b hash.Event) (res bool, crit string) {
	pv := catch(func() { res = n.Index.ForklessCause(a, b) })
	if pv != nil {
		crit = fmt.Sprint(pv)
	}
	return
}

// Catch exposes the crit-aware recover helper.
func Catch(f func()) interface{} { return catch(f) }
