package cons

import (
	lref "verif/ref/lachesis"
)

// Corpus: hand-written DAG shapes that are too sparse / too large to be members of the enumerated
// families but exercise mechanisms the families reach rarely.  Each corpus DAG is explored like any
// family member: every parents-first order (ideal lattice), and in the multi-epoch driver every
// sealing frame and next-validator-set kind.
type corpusEv struct {
	name    string
	creator int
	sp      int // index of the self-parent, -1 none
	others  []int
}

// cascade: 4 equal validators, no forks.  B2 does not observe A1 (votes "no" for A), D goes silent
// after D2 and D2 stays unobserved, so the frame-3 roots see yes=2/no=1 and frame 1 stays open.
// Y (ordinary frame-4 root) and J (D's come-back, root of frames 3 and 4) each decide frame 1 when
// processed first, and the re-processing of the known roots decides frame 2 in the same call.
var corpusCascade = []corpusEv{
	{"A1", 0, -1, nil}, {"B1", 1, -1, nil}, {"C1", 2, -1, nil}, {"D1", 3, -1, nil},
	{"d1a", 3, 3, []int{1, 2}}, {"c1a", 2, 2, []int{4}}, {"B2", 1, 1, []int{5}}, {"d1b", 3, 4, []int{0}},
	{"c1b", 2, 5, []int{7}}, {"A2", 0, 0, []int{8, 6}}, {"C2", 2, 8, []int{6}}, {"D2", 3, 7, []int{10}},
	{"b2a", 1, 6, []int{9, 10}}, {"a2a", 0, 9, []int{12}}, {"C3", 2, 10, []int{13}}, {"B3", 1, 12, []int{14}},
	{"A3", 0, 13, []int{15}}, {"c3a", 2, 14, []int{16}}, {"a3a", 0, 16, []int{11}}, {"c3b", 2, 17, []int{11}},
	{"J", 3, 11, []int{18, 19}}, {"Y", 1, 15, []int{17}},
}

func buildCorpus(w WeightVec, evs []corpusEv, tail int) *lref.DAG {
	d := &lref.DAG{Weights: w.W, IDs: w.IDs, Epoch: 1}
	n := len(w.W)
	tips := make([]int, n)
	for i := range tips {
		tips[i] = -1
	}
	for _, e := range evs {
		tips[e.creator] = addEvent(d, e.creator, e.sp, e.others)
	}
	// optional tail of sequential gossip so that later frames get decided as well
	for r := 0; r < tail; r++ {
		for v := 0; v < n; v++ {
			var os []int
			for u := 0; u < n; u++ {
				if u != v && tips[u] >= 0 {
					os = append(os, tips[u])
				}
			}
			tips[v] = addEvent(d, v, tips[v], os)
		}
	}
	d.AssignFrames()
	return d
}

// CorpusDAGs returns the corpus (descriptions are stable names used in replay artefacts).
func CorpusDAGs() (dags []*lref.DAG, names []string) {
	// IDs chosen so that validator 0 ("A") is first in the election order of the equal-weight set
	for _, tail := range []int{0, 2} {
		dags = append(dags, buildCorpus(WV(1, 1, 1, 1), corpusCascade, tail))
		names = append(names, "corpus/cascade-late-multiframe-root tail="+itoa(tail))
	}
	return
}
