package cons

import (
	"fmt"
	"strings"

	"github.com/Fantom-foundation/lachesis-base/hash"
	"github.com/Fantom-foundation/lachesis-base/inter/idx"
	"github.com/Fantom-foundation/lachesis-base/inter/pos"
	"verif/core"
	lref "verif/ref/lachesis"
)

// NextVals derives the next epoch's validator set from the current one.
func NextVals(w WeightVec, kind string) WeightVec {
	n := len(w.W)
	switch kind {
	case "reweighted": // reversed weights: different canonical order
		nw := make([]uint32, n)
		for i := range nw {
			nw[i] = w.W[n-1-i]
		}
		if n > 1 && nw[0] == w.W[0] { // symmetric vector: bump one weight instead
			nw[n-1]++
		}
		return WeightVec{nw, append([]uint32{}, w.IDs...)}
	case "removed":
		if n > 1 {
			return WeightVec{append([]uint32{}, w.W[:n-1]...), append([]uint32{}, w.IDs[:n-1]...)}
		}
	case "added":
		return WeightVec{append(append([]uint32{}, w.W...), 1), append(append([]uint32{}, w.IDs...), 5)}
	}
	return WeightVec{append([]uint32{}, w.W...), append([]uint32{}, w.IDs...)}
}

func valsOf(w WeightVec) *pos.Validators {
	b := pos.NewBuilder()
	for i, x := range w.W {
		b.Set(idx.ValidatorID(w.IDs[i]), pos.Weight(x))
	}
	return b.Build()
}

// epochBlocks renders the blocks of one epoch.
func epochBlocks(n *Node, epoch idx.Epoch, name Namer) string {
	keep := n.Blocks
	var sel []BlockObs
	for _, b := range keep {
		if b.Epoch == epoch {
			sel = append(sel, b)
		}
	}
	n.Blocks = sel
	s := n.BlocksString(name)
	n.Blocks = keep
	return s
}

// CheckEpochs explores epoch 1 (DAG d1, sealed at the block of frame sealFrame with validator set
// kind) over all orders, then epoch 2 (DAG built by mkD2 over the new set) over all orders from
// several starting points: the shortest and the longest sealing path, an instance Reset() to the new
// epoch from genesis and one Reset() from a mid-epoch state.
func CheckEpochs(c *core.Ctx, d1 *lref.DAG, desc string, sealFrame int, kind string, d2rounds int, rep Report, cfg Config) {
	w1 := WeightVec{d1.Weights, d1.IDs}
	w2 := NextVals(w1, kind)
	if kind == "removed" && len(w1.W) == 1 {
		return
	}
	v1 := valsOf(w1)
	v2 := valsOf(w2)
	evs1, byID1 := Events(d1)
	// the new epoch's DAG contains one fork by a validator holding < 1/3 (if there is one), adopted by
	// validator 0, so that the new epoch's blocks list a cheater
	forkSlot, forkVar := -1, 0
	for v := len(w2.W) - 1; v >= 0 && len(w2.W) > 1; v-- {
		if uint64(w2.W[v])*3 < totalW(w2.W) {
			forkSlot, forkVar = len(w2.W)+v, 1 // round 1 (round-0 events have no parents to differ in)
			if v == 0 {
				forkVar = 2 // validator 1 adopts the fork branch
			}
			break
		}
	}
	d2 := BuildRounds(RoundCfg{W: w2, Epoch: d1.Epoch + 1, R: d2rounds}, nil, forkSlot, forkVar)
	evs2, byID2 := Events(d2)
	name := func(id hash.Event) string {
		if i, ok := byID1[id]; ok {
			return fmt.Sprintf("e%d", i)
		}
		if i, ok := byID2[id]; ok {
			return fmt.Sprintf("n%d", i)
		}
		return "?" + id.String()
	}
	// violate reports a mismatch of a category this check judges and returns true; mismatches of other categories
	// are only counted (they belong to a sibling check) and, where the instance is still usable, the exploration
	// goes on - otherwise a sibling's mismatch at a small event set would hide this check's own at a larger one
	violate := func(cat, sig string, replay interface{}, format string, a ...interface{}) bool {
		if rep[cat] {
			c.Violation(sig, replay, format, a...)
			return true
		}
		c.Count("other_category_mismatches", 1)
		return false
	}
	mkCfg := func() Config {
		k := cfg
		k.Seal = func(epoch idx.Epoch, frame idx.Frame) *pos.Validators {
			if epoch == idx.Epoch(d1.Epoch) && int(frame) == sealFrame {
				if kind == "same-object" {
					return nil // replaced below (needs the node)
				}
				return v2
			}
			return nil
		}
		return k
	}
	newNode := func() *Node {
		k := mkCfg()
		n := NewNode(k, idx.Epoch(d1.Epoch), v1)
		if kind == "same-object" {
			n.Cfg.Seal = func(epoch idx.Epoch, frame idx.Frame) *pos.Validators {
				if epoch == idx.Epoch(d1.Epoch) && int(frame) == sealFrame {
					return n.Store.GetValidators()
				}
				return nil
			}
		}
		return n
	}
	maxFrame1 := 0
	for _, e := range d1.Events {
		if e.Frame > maxFrame1 {
			maxFrame1 = e.Frame
		}
	}
	byz := d1.ForkersWeight(d1.Full())*3 >= d1.Total()
	if byz {
		return
	}
	var sealObs string
	var sealPathShort, sealPathLong, midPath []int
	midBlocks := 0
	sealedSomewhere := false
	table := map[uint64]string{}
	ideals, edges, _ := Lattice(d1, 20000, c.OutOfBudget, func(path []int, e int, nm uint64) bool {
		node := newNode()
		seq := append(append([]int{}, path...), e)
		replay := func() interface{} {
			return map[string]interface{}{"epoch1_dag": d1.String(), "family": desc, "seal_frame": sealFrame, "next_validators": kind, "order": seq}
		}
		for k, x := range seq {
			err, crit := node.Process(evs1[x])
			if err != nil || crit != "" {
				violate("accept", "accept/rejected-valid-event", replay(), "Process(e%d) = %v %s after %v (epoch sealing at frame %d, next validators %s) [%v]", x, err, crit, seq[:k], sealFrame, kind, replay())
				return false
			}
		}
		es := node.Store.GetEpochState()
		refBlocks, _ := d1.Blocks(nm, sealFrame)
		refSealed := len(refBlocks) >= sealFrame
		if int(es.Epoch) == int(d1.Epoch) {
			// not sealed: same monitors as the single-epoch exploration
			if refSealed {
				if violate("epoch", "epoch/seal-missed", replay(), "the reference decides frame %d inside this event set but the instance did not seal [%v]", sealFrame, replay()) {
					return false
				}
			}
			if cat, msg := CheckBlocks(d1, node, byID1, rep); cat != "" {
				if violate(strings.SplitN(cat, "/", 2)[0], cat, replay(), "%s [%v]", msg, replay()) {
					return false
				}
			}
			var ids []hash.Event
			for _, x := range maskList(nm) {
				ids = append(ids, evs1[x].ID())
			}
			obs := node.Observe(name, ids, maxFrame1+1)
			if prev, ok := table[nm]; ok && prev != obs {
				if violate("order", "order/state-depends-on-order", replay(), "event set %v reached in two orders observes different states:\n A: %s\n B: %s", maskList(nm), prev, obs) {
					return false
				}
			}
			table[nm] = obs
			if len(node.Blocks) > midBlocks || (len(node.Blocks) == midBlocks && len(seq) > len(midPath)) {
				midPath, midBlocks = seq, len(node.Blocks) // the not yet sealed event set with most decided blocks
			}
			return true
		}
		// sealed by this event
		sealedSomewhere = true
		c.Count("seal_transitions", 1)
		msg := ""
		if int(es.Epoch) != int(d1.Epoch)+1 {
			msg = fmt.Sprintf("epoch after sealing is %d", es.Epoch)
		} else if es.Validators.String() != v2.String() {
			msg = fmt.Sprintf("validators after sealing are %s, EndBlock returned %s", es.Validators.String(), v2.String())
		} else if node.Store.GetLastDecidedFrame() != 0 {
			msg = fmt.Sprintf("last decided frame after sealing is %d", node.Store.GetLastDecidedFrame())
		} else if len(node.Blocks) != sealFrame {
			msg = fmt.Sprintf("%d blocks emitted, the seal was requested at the block of frame %d", len(node.Blocks), sealFrame)
		}
		for f := 1; msg == "" && f <= maxFrame1+1; f++ {
			if rr := node.Store.GetFrameRoots(idx.Frame(f)); len(rr) != 0 {
				msg = fmt.Sprintf("new epoch starts with %d roots in frame %d", len(rr), f)
			}
		}
		if msg != "" {
			if violate("epoch", "epoch/unclean-switch", replay(), "%s [%v]", msg, replay()) {
				return false
			}
		}
		// blocks of the sealed epoch against the graph monitors (the node's blocks are all epoch 1)
		if cat, m := CheckBlocks(d1, node, byID1, rep); cat != "" {
			violate(strings.SplitN(cat, "/", 2)[0], cat, replay(), "%s [%v]", m, replay())
			return false
		}
		obs := node.BlocksString(name)
		if sealObs == "" {
			sealObs = obs
			sealPathShort = seq
		} else if obs != sealObs {
			violate("order", "order/sealing-blocks-differ", replay(), "two orders seal the epoch with different block sequences:\n A: %s\n B: %s [%v]", sealObs, obs, replay())
			return false
		}
		if len(seq) >= len(sealPathLong) {
			sealPathLong = seq
		}
		if !byz && len(refBlocks) == sealFrame {
			for i, b := range refBlocks {
				if at, ok := byID1[node.Blocks[i].Atropos]; !ok || at != b.Atropos {
					violate("ref", "ref/blocks-differ", replay(), "sealed epoch blocks %s differ from the reference (frame %d atropos e%d) [%v]", obs, b.Frame, b.Atropos, replay())
					return false
				}
			}
		}
		return false // nothing of the old epoch is fed after the seal
	})
	c.Count("states", int64(ideals))
	c.Count("transitions", int64(edges))
	c.Count("traces_validated_against_impl", int64(edges))
	c.Count("epoch_scenarios", 1)
	if !sealedSomewhere {
		return
	}
	c.Count("epoch_scenarios_sealed", 1)
	if c.Get("epoch_scenarios_sealed")%200 == 1 {
		c.Sample(map[string]interface{}{"epoch1_dag": d1.String(), "family": desc, "seal_frame": sealFrame, "next_validators": kind, "next_weights": w2.W,
			"shortest_sealing_order": sealPathShort, "longest_sealing_order": sealPathLong, "reset_from_mid_epoch_after": midPath})
	}

	// ---- epoch 2 from several starting points
	type start struct {
		name string
		mk   func() (*Node, string)
	}
	runPath := func(p []int) (*Node, string) {
		n := newNode()
		for _, x := range p {
			if err, crit := n.Process(evs1[x]); err != nil || crit != "" {
				return nil, fmt.Sprintf("replay failed at e%d: %v %s", x, err, crit)
			}
		}
		return n, ""
	}
	starts := []start{
		{"sealed(shortest path)", func() (*Node, string) { return runPath(sealPathShort) }},
		{"sealed(longest path)", func() (*Node, string) { return runPath(sealPathLong) }},
		{"reset-from-genesis", func() (*Node, string) {
			n := newNode()
			if err, crit := n.Reset(idx.Epoch(d1.Epoch)+1, v2); err != nil || crit != "" {
				return nil, fmt.Sprintf("Reset failed: %v %s", err, crit)
			}
			return n, ""
		}},
		{"reset-from-mid-epoch", func() (*Node, string) {
			n, msg := runPath(midPath)
			if msg != "" {
				return nil, msg
			}
			if err, crit := n.Reset(idx.Epoch(d1.Epoch)+1, v2); err != nil || crit != "" {
				return nil, fmt.Sprintf("Reset failed: %v %s", err, crit)
			}
			return n, ""
		}},
	}
	// Reset to the epoch the instance is already in (right after sealing, and after a part of the new epoch was
	// processed): everything of that epoch must be forgotten and the events are accepted again from scratch
	sameEpochReset := func(processed int) func() (*Node, string) {
		return func() (*Node, string) {
			n, msg := runPath(sealPathShort)
			if msg != "" {
				return nil, msg
			}
			for x := 0; x < processed && x < len(evs2); x++ { // event indices are parents-first
				if err, crit := n.Process(evs2[x]); err != nil || crit != "" {
					return nil, fmt.Sprintf("processing n%d before the reset failed: %v %s", x, err, crit)
				}
			}
			if err, crit := n.Reset(idx.Epoch(d1.Epoch)+1, v2); err != nil || crit != "" {
				return nil, fmt.Sprintf("Reset to the current epoch failed: %v %s", err, crit)
			}
			n.Blocks = nil // blocks of the abandoned attempt are not part of the comparison
			return n, ""
		}
	}
	starts = append(starts, start{"sealed(shortest path), then reset to the same epoch", sameEpochReset(0)},
		start{"sealed(shortest path), half of the new epoch processed, then reset to the same epoch", sameEpochReset((len(evs2) + 1) / 2)})
	// The new epoch first attempted with a provisional validator set (same members, one of the lightest made a
	// dictator, so that forkless-cause answers differ), everything offered parents-first (rejections allowed),
	// then Reset to the same epoch with the right set: nothing computed under the provisional set may survive.
	if len(w2.W) > 1 {
		alt := WeightVec{append([]uint32{}, w2.W...), append([]uint32{}, w2.IDs...)}
		light := 0
		for i, x := range alt.W {
			if x <= alt.W[light] {
				light = i
			}
		}
		alt.W[light] = uint32(3 * totalW(w2.W))
		vAlt := valsOf(alt)
		provisional := func(from func() (*Node, string)) func() (*Node, string) {
			return func() (*Node, string) {
				n, msg := from()
				if msg != "" {
					return nil, msg
				}
				if err, crit := n.Reset(idx.Epoch(d1.Epoch)+1, vAlt); err != nil || crit != "" {
					return nil, fmt.Sprintf("Reset to the provisional set failed: %v %s", err, crit)
				}
				accepted := map[hash.Event]bool{}
				for _, e := range evs2 { // parents-first
					ok := true
					for _, p := range e.Parents() {
						ok = ok && accepted[p]
					}
					if !ok {
						continue
					}
					err, crit := n.Process(e)
					if crit != "" {
						return nil, fmt.Sprintf("processing %s under the provisional set: %s", name(e.ID()), crit)
					}
					accepted[e.ID()] = err == nil
				}
				if err, crit := n.Reset(idx.Epoch(d1.Epoch)+1, v2); err != nil || crit != "" {
					return nil, fmt.Sprintf("Reset from the provisional set failed: %v %s", err, crit)
				}
				n.Blocks = nil
				return n, ""
			}
		}
		starts = append(starts, start{"reset-from-genesis to a provisional set (a light validator made dictator), new epoch offered, then reset to the same epoch with the right set", provisional(func() (*Node, string) { return newNode(), "" })},
			start{"sealed(longest path), reset to a provisional set, new epoch offered, then reset to the same epoch with the right set", provisional(func() (*Node, string) { return runPath(sealPathLong) })})
	}
	if rep["restart"] {
		restarted := func(mk func() (*Node, string)) func() (*Node, string) {
			return func() (*Node, string) {
				n, msg := mk()
				if msg != "" {
					return nil, msg
				}
				m, err := n.Restart()
				if err != nil {
					return nil, "restart failed: " + err.Error()
				}
				return m, ""
			}
		}
		starts = append(starts, start{"sealed(shortest path), then restarted", restarted(starts[0].mk)},
			start{"sealed(longest path), then restarted", restarted(starts[1].mk)},
			start{"reset-from-mid-epoch, then restarted", restarted(starts[3].mk)},
			start{"half of the new epoch processed, reset to the same epoch, then restarted", restarted(starts[5].mk)})
	}
	maxFrame2 := 0
	for _, e := range d2.Events {
		if e.Frame > maxFrame2 {
			maxFrame2 = e.Frame
		}
	}
	table2 := map[uint64]string{}
	from2 := map[uint64]string{}
	for _, st := range starts {
		st := st
		_, edges2, _ := Lattice(d2, 20000, c.OutOfBudget, func(path []int, e int, nm uint64) bool {
			seq := append(append([]int{}, path...), e)
			replay := func() interface{} {
				return map[string]interface{}{"epoch1_dag": d1.String(), "family": desc, "seal_frame": sealFrame, "next_validators": kind,
					"start": st.name, "seal_path_short": sealPathShort, "seal_path_long": sealPathLong, "mid_path": midPath, "epoch2_dag": d2.String(), "epoch2_order": seq}
			}
			node, msg := st.mk()
			if msg != "" {
				violate("epoch", "epoch/start-failed", replay(), "%s: %s [%v]", st.name, msg, replay())
				return false
			}
			nb := len(node.Blocks)
			for k, x := range seq {
				if rep["restart"] && k == len(seq)-1 && strings.Contains(st.name, "shortest path)") {
					m, rerr := node.Restart()
					if rerr != nil {
						violate("restart", "restart/bootstrap-failed", replay(), "[%s] restart before n%d failed: %v [%v]", st.name, x, rerr, replay())
						return false
					}
					node = m
				}
				err, crit := node.Process(evs2[x])
				if (err != nil || crit != "") && rep["restart"] {
					// differential oracle of the restart property: a twin restarted at the starting point decides otherwise
					if tw, tmsg := st.mk(); tmsg == "" {
						if tw2, rerr := tw.Restart(); rerr == nil {
							var terr error
							tcrit := ""
							for _, y := range seq[:k+1] {
								if terr, tcrit = tw2.Process(evs2[y]); terr != nil || tcrit != "" {
									break
								}
							}
							if fmt.Sprint(terr, tcrit) != fmt.Sprint(err, crit) {
								violate("restart", "restart/decision-differs-from-restarted-twin", replay(), "[%s] Process(n%d) = %v %s after %v in the new epoch, but an instance restarted at the starting point answers %v %s [%v]", st.name, x, err, crit, seq[:k], terr, tcrit, replay())
								return false
							}
						}
					}
				}
				if err != nil || crit != "" {
					violate("accept", "accept/rejected-valid-event-new-epoch", replay(), "[%s] Process(n%d) = %v %s after %v in the new epoch [%v]", st.name, x, err, crit, seq[:k], replay())
					return false
				}
			}
			for _, b := range node.Blocks[nb:] {
				if b.Epoch != idx.Epoch(d2.Epoch) {
					if violate("epoch", "epoch/old-epoch-block-after-seal", replay(), "[%s] a block of epoch %d was emitted after the switch [%v]", st.name, b.Epoch, replay()) {
						return false
					}
				}
			}
			// monitors on the new epoch's blocks
			keep := node.Blocks
			node.Blocks = append([]BlockObs{}, keep[nb:]...)
			cat, m := CheckBlocks(d2, node, byID2, rep)
			var ids []hash.Event
			for _, x := range maskList(nm) {
				ids = append(ids, evs2[x].ID())
			}
			obs := node.Observe(name, ids, maxFrame2+1)
			refB, incons := d2.Blocks(nm, 0)
			okRef := incons != "" || len(refB) == len(node.Blocks)
			for i := 0; okRef && incons == "" && i < len(refB); i++ {
				at, known := byID2[node.Blocks[i].Atropos]
				okRef = known && at == refB[i].Atropos
			}
			node.Blocks = keep
			if cat != "" {
				if violate(strings.SplitN(cat, "/", 2)[0], cat, replay(), "[%s] new epoch: %s [%v]", st.name, m, replay()) {
					return false
				}
			}
			if !okRef {
				if violate("ref", "ref/blocks-differ-new-epoch", replay(), "[%s] new epoch blocks differ from the reference: %s [%v]", st.name, obs, replay()) {
					return false
				}
			}
			if prev, ok := table2[nm]; ok && prev != obs {
				cat := "epoch"
				if strings.Contains(st.name, "restart") || strings.Contains(from2[nm], "restart") || rep["restart"] {
					cat = "restart"
				}
				if violate(cat, "epoch/new-epoch-depends-on-history", replay(), "new-epoch event set %v: [%s] observes\n  %s\nbut [%s] observed\n  %s [%v]", maskList(nm), st.name, obs, from2[nm], prev, replay()) {
					return false
				}
			} else if !ok {
				table2[nm] = obs
				from2[nm] = st.name
			}
			return true
		})
		c.Count("transitions", int64(edges2))
		c.Count("traces_validated_against_impl", int64(edges2))
	}
}

// ExploreEpochs runs the multi-epoch exploration (sealing at every decided frame, every kind of
// next validator set, new epoch explored from sealed and Reset() instances).
func ExploreEpochs(c *core.Ctx, rep Report, light bool) {
	quick := c.Quick()
	cfgs := nodeConfigs()
	kinds := []string{"same-object", "same-set", "reweighted", "removed", "added"}
	item := 0
	var fams []GenCfg
	add := func(w WeightVec, n, forks int) {
		fams = append(fams, GenCfg{Weights: w.W, IDs: w.IDs, Epoch: 1, N: n, ForkBudget: forks, MaxLevelSet: 100000})
	}
	if quick && light {
		add(WV(3, 1), 5, 0)
		kinds = []string{"same-object", "reweighted", "removed"}
		if rep["restart"] {
			kinds = append(kinds, "added") // a grown set: more branches than the old epoch's index knew
		}
	} else if quick {
		add(WV(3, 1), 5, 0)
		add(WV(5, 1, 1), 4, 0)
	} else {
		add(WV(3, 1), 7, 0)
		add(WV(3, 1), 6, 1)
		add(WV(5, 1, 1), 5, 1)
	}
	for _, g := range fams {
		GenAll(g, 3, func(d *lref.DAG) {
			full, _ := d.Blocks(d.Full(), 0)
			for s := 1; s <= len(full); s++ {
				for _, kind := range kinds {
					item++
					if !c.Mine(item) || c.OutOfBudget() {
						continue
					}
					CheckEpochs(c, d, fmt.Sprintf("epochs: F-all weights=%v N=%d", g.Weights, g.N), s, kind, 6, rep, cfgs[item%len(cfgs)])
				}
			}
		})
	}
	// lagging validators (multi-frame roots) in the sealed epoch
	rounds := []RoundCfg{{W: WV(1, 1, 1, 1), Epoch: 1, R: 8, Dev: 1, Lags: true, MaxLag: 5}}
	if !quick {
		rounds = append(rounds, RoundCfg{W: WV(2, 1, 1, 1), Epoch: 1, R: 8, Dev: 1, Lags: true, MaxLag: 5},
			RoundCfg{W: WV(1, 1, 1, 1), Epoch: 1, R: 8, Dev: 2, Lags: true, MaxLag: 4, DevRounds: 3})
	}
	if quick && light {
		rounds = nil
	}
	for _, r := range rounds {
		r := r
		GenRounds(r, nil, func(d *lref.DAG, desc string) {
			full, _ := d.Blocks(d.Full(), 0)
			for s := 1; s <= len(full); s++ {
				for _, kind := range []string{"same-object", "reweighted"} {
					item++
					if !c.Mine(item) || c.OutOfBudget() {
						continue
					}
					CheckEpochs(c, d, "epochs: F-round "+desc, s, kind, 3, rep, cfgs[item%len(cfgs)])
				}
			}
		})
	}
	// corpus DAGs: every sealing frame, every kind
	{
		cd, cn := CorpusDAGs()
		for i, d := range cd {
			full, _ := d.Blocks(d.Full(), 0)
			for s := 1; s <= len(full); s++ {
				for _, kind := range kinds {
					item++
					if !c.Mine(item) || c.OutOfBudget() {
						continue
					}
					c.Count("corpus_epoch_scenarios", 1)
					CheckEpochs(c, d, "epochs: "+cn[i], s, kind, 3, rep, cfgs[item%len(cfgs)])
				}
			}
		}
	}
	// a sleeping validator returning with stale knowledge while the first election is split: late multi-frame
	// roots that decide frames (and cascades of decisions) in the sealed epoch
	var sleepers []SleeperCfg // thorough only: ~5k DAGs x seal frames
	if !quick {
		sleepers = []SleeperCfg{{W: WV(1, 1, 1, 1), Epoch: 1, MinSleep: 2, MaxSleep: 4, Tail: 4, DropInFirstRound: true, Rots: 2},
			{W: WV(1, 1, 1, 1), Epoch: 1, MinSleep: 3, MaxSleep: 5, Tail: 5, Forks: true, Rots: 1}}
	}
	if quick && light {
		sleepers = nil
	}
	for _, sl := range sleepers {
		GenSleeper(sl, nil, func(d *lref.DAG, desc string) {
			full, _ := d.Blocks(d.Full(), 0)
			for s := 1; s <= len(full); s++ {
				item++
				if !c.Mine(item) || c.OutOfBudget() {
					continue
				}
				c.Count("sleeper_epoch_scenarios", 1)
				CheckEpochs(c, d, "epochs: F-sleeper "+desc, s, "reweighted", 3, rep, cfgs[item%len(cfgs)])
			}
		})
	}
	if c.Capped() {
		c.Set("exhaustive", false)
	}
}
