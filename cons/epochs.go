package cons

import "verif/core"

// ExploreEpochs is filled in by the multi-epoch explorer (see epochs_impl.go).
var ExploreEpochs = func(c *core.Ctx, rep Report) {}
