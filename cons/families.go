package cons

// WeightVec is a validator set used by the DAG families.
type WeightVec struct {
	W   []uint32
	IDs []uint32
}

func WV(w ...uint32) WeightVec {
	ids := make([]uint32, len(w))
	for i := range w {
		ids[i] = uint32(10 + 3*i) // IDs are not 0..n-1, and not in weight order
	}
	return WeightVec{w, ids}
}

// WVids allows explicit IDs (e.g. to make the canonical order differ from the ID order).
func WVids(w []uint32, ids []uint32) WeightVec { return WeightVec{w, ids} }
