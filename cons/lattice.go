package cons

import (
	lref "verif/ref/lachesis"
)

// Lattice explores every downward-closed event set (ideal) of the DAG, breadth first, and calls
// edge for every (ideal, enabled event) pair with a shortest path to the ideal.  Every parents-first
// delivery order is a path in this graph, so checking every edge covers all orders.  edge returning
// false prunes the successor (e.g. the event was legitimately not processed).
// Returns ideals and edges visited and whether the lattice was explored completely.
func Lattice(d *lref.DAG, maxIdeals int, stop func() bool, edge func(path []int, e int, newMask uint64) bool) (ideals, edges int, complete bool) {
	type node struct {
		mask uint64
		path []int
	}
	n := d.N()
	pmask := make([]uint64, n)
	for i := range d.Events {
		for _, p := range d.Events[i].Parents {
			pmask[i] |= 1 << uint(p)
		}
	}
	seen := map[uint64]bool{0: true}
	queue := []node{{0, nil}}
	ideals = 1
	complete = true
	for len(queue) > 0 {
		cur := queue[0]
		queue = queue[1:]
		for e := 0; e < n; e++ {
			bit := uint64(1) << uint(e)
			if cur.mask&bit != 0 || pmask[e]&^cur.mask != 0 {
				continue
			}
			if stop != nil && stop() {
				return ideals, edges, false
			}
			edges++
			nm := cur.mask | bit
			ok := edge(cur.path, e, nm)
			if !ok || seen[nm] {
				continue
			}
			if ideals >= maxIdeals {
				complete = false
				continue
			}
			seen[nm] = true
			ideals++
			queue = append(queue, node{nm, append(append([]int{}, cur.path...), e)})
		}
	}
	return ideals, edges, complete
}

// CountOrders returns the number of linear extensions (parents-first orders) of the DAG, as a
// float (it can exceed 2^64), computed over the ideal lattice; 0 if the lattice is too large.
func CountOrders(d *lref.DAG, maxIdeals int) float64 {
	n := d.N()
	pmask := make([]uint64, n)
	for i := range d.Events {
		for _, p := range d.Events[i].Parents {
			pmask[i] |= 1 << uint(p)
		}
	}
	cnt := map[uint64]float64{0: 1}
	level := []uint64{0}
	for k := 0; k < n; k++ {
		next := map[uint64]bool{}
		for _, m := range level {
			for e := 0; e < n; e++ {
				bit := uint64(1) << uint(e)
				if m&bit != 0 || pmask[e]&^m != 0 {
					continue
				}
				cnt[m|bit] += cnt[m]
				next[m|bit] = true
			}
		}
		level = level[:0]
		for m := range next {
			level = append(level, m)
		}
		if len(cnt) > maxIdeals {
			return 0
		}
	}
	return cnt[d.Full()]
}
