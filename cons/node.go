// Package cons drives the real consensus code (abft.IndexedLachesis over vecfc.Index) through its
// public API for the explorers of C01-C10/C20, and converts reference DAGs into real events.
package cons

import (
	"crypto/sha256"
	"encoding/binary"
	"fmt"
	"sort"
	"strings"

	"github.com/Fantom-foundation/lachesis-base/abft"
	"github.com/Fantom-foundation/lachesis-base/hash"
	"github.com/Fantom-foundation/lachesis-base/inter/dag"
	"github.com/Fantom-foundation/lachesis-base/inter/dag/tdag"
	"github.com/Fantom-foundation/lachesis-base/inter/idx"
	"github.com/Fantom-foundation/lachesis-base/inter/pos"
	"github.com/Fantom-foundation/lachesis-base/kvdb"
	"github.com/Fantom-foundation/lachesis-base/kvdb/memorydb"
	"github.com/Fantom-foundation/lachesis-base/lachesis"
	"github.com/Fantom-foundation/lachesis-base/utils/adapters"
	"github.com/Fantom-foundation/lachesis-base/vecfc"
	"verif/ref/kv"
	lref "verif/ref/lachesis"
)

// Events converts a reference DAG into real events; IDs are derived from content, so an ID
// determines an event.  Returns the events and the id -> index map.
func Events(d *lref.DAG) ([]*tdag.TestEvent, map[hash.Event]int) {
	evs := make([]*tdag.TestEvent, len(d.Events))
	byID := map[hash.Event]int{}
	for i := range d.Events {
		evs[i] = MakeEvent(d, i, evs, d.Events[i].Frame)
		if j, dup := byID[evs[i].ID()]; dup {
			// a generator produced the same event twice (same creator, seq, frame, parents, no salt): that is one
			// event, not a fork; judging such a "DAG" would be a false alarm of the generator
			panic(fmt.Sprintf("ENGINE-ERROR: generated DAG contains the same event twice (e%d, e%d): %s", j, i, d.String()))
		}
		byID[evs[i].ID()] = i
	}
	return evs, byID
}

// MakeEvent builds event i of d with the given claimed frame (parents must exist in evs).
func MakeEvent(d *lref.DAG, i int, evs []*tdag.TestEvent, frame int) *tdag.TestEvent {
	re := d.Events[i]
	e := &tdag.TestEvent{}
	e.SetEpoch(idx.Epoch(d.Epoch))
	e.SetCreator(idx.ValidatorID(d.IDs[re.Creator]))
	e.SetSeq(idx.Event(re.Seq))
	e.SetLamport(idx.Lamport(re.Lamport))
	e.SetFrame(idx.Frame(frame))
	var ps hash.Events
	h := sha256.New()
	var b [8]byte
	put := func(v uint64) { binary.BigEndian.PutUint64(b[:], v); h.Write(b[:]) }
	put(uint64(d.Epoch))
	put(uint64(d.IDs[re.Creator]))
	put(uint64(re.Seq))
	put(uint64(frame))
	if re.Salt != 0 {
		put(uint64(1<<40 + re.Salt))
	}
	for _, p := range re.Parents {
		ps = append(ps, evs[p].ID())
		id := evs[p].ID()
		h.Write(id[:])
	}
	e.SetParents(ps)
	var tail [24]byte
	copy(tail[:], h.Sum(nil))
	e.SetID(tail)
	e.Name = fmt.Sprintf("e%d", i)
	return e
}

func Validators(d *lref.DAG) *pos.Validators {
	b := pos.NewBuilder()
	for i, w := range d.Weights {
		b.Set(idx.ValidatorID(d.IDs[i]), pos.Weight(w))
	}
	return b.Build()
}

// BlockObs is one emitted block as observed through the callbacks.
type BlockObs struct {
	Epoch    idx.Epoch
	Frame    idx.Frame // LastDecidedFrame+1 at BeginBlock
	Atropos  hash.Event
	Cheaters []idx.ValidatorID
	Events   []hash.Event // ApplyEvent arguments in callback order
	Sealed   bool
}

type eventStore struct{ m map[hash.Event]dag.Event }

func (s *eventStore) HasEvent(h hash.Event) bool { _, ok := s.m[h]; return ok }
func (s *eventStore) GetEvent(h hash.Event) dag.Event {
	e, ok := s.m[h]
	if !ok {
		return nil
	}
	return e
}

// Config of a node.
type Config struct {
	Store abft.StoreConfig
	Index vecfc.IndexConfig
	// Seal decides, at the end of the block of (epoch, frame), the next epoch's validators (nil = no seal).
	Seal func(epoch idx.Epoch, frame idx.Frame) *pos.Validators
	// LibMemDB: the databases are the library's own memorydb (kvdb/memorydb = flushable over devnull) instead of the
	// harness's map store.  Whatever the library's storage layers do to byte slices they are handed (copy or keep)
	// then reaches the persistent state exactly as in a real deployment of those layers.
	LibMemDB bool
}

func DefaultConfig() Config {
	return Config{Store: abft.LiteStoreConfig(), Index: vecfc.LiteConfig()}
}

// Node is one consensus instance over harness-owned databases.
type Node struct {
	Cfg      Config
	MainDB   *kv.Store
	EpochDB  map[idx.Epoch]*kv.Store
	Store    *abft.Store
	Index    *vecfc.Index
	L        *abft.IndexedLachesis
	Input    *eventStore
	Blocks   []BlockObs
	Crit     []string
	LibMain  kvdb.Store               // with Cfg.LibMemDB
	LibEpoch map[idx.Epoch]kvdb.Store // with Cfg.LibMemDB
	// ApplyTwice records events handed to the application twice in an epoch etc. (filled by monitors)
}

func (n *Node) epochDB(e idx.Epoch) kvdb.Store {
	if n.Cfg.LibMemDB {
		if db, ok := n.LibEpoch[e]; ok {
			return db
		}
		ep := e
		db := memorydb.NewWithDrop(func() { delete(n.LibEpoch, ep) })
		n.LibEpoch[e] = db
		return db
	}
	db := n.EpochDB[e]
	if db == nil {
		db = kv.New()
		ep := e
		db.OnDrop = func() { delete(n.EpochDB, ep) }
		n.EpochDB[e] = db
	}
	db.Closed = false
	return db
}

// open creates Store/Index/Lachesis objects over the node's databases and bootstraps.
func (n *Node) open() error {
	crit := func(err error) { panic(critPanic{err}) }
	var mainDB kvdb.Store = n.MainDB
	if n.Cfg.LibMemDB {
		if n.LibMain == nil {
			n.LibMain, n.LibEpoch = memorydb.New(), map[idx.Epoch]kvdb.Store{}
		}
		mainDB = n.LibMain
	}
	n.Store = abft.NewStore(mainDB, n.epochDB, crit, n.Cfg.Store)
	n.Index = vecfc.NewIndex(crit, n.Cfg.Index)
	n.L = abft.NewIndexedLachesis(n.Store, n.Input, &adapters.VectorToDagIndexer{Index: n.Index}, crit, abft.LiteConfig())
	return nil
}

type critPanic struct{ err error }

func (n *Node) bootstrap() error {
	return n.L.Bootstrap(lachesis.ConsensusCallbacks{BeginBlock: n.beginBlock})
}

func (n *Node) beginBlock(b *lachesis.Block) lachesis.BlockCallbacks {
	bo := BlockObs{Epoch: n.Store.GetEpoch(), Frame: n.Store.GetLastDecidedFrame() + 1, Atropos: b.Atropos,
		Cheaters: append([]idx.ValidatorID{}, b.Cheaters...)}
	n.Blocks = append(n.Blocks, bo)
	k := len(n.Blocks) - 1
	return lachesis.BlockCallbacks{
		ApplyEvent: func(e dag.Event) { n.Blocks[k].Events = append(n.Blocks[k].Events, e.ID()) },
		EndBlock: func() *pos.Validators {
			if n.Cfg.Seal != nil {
				if v := n.Cfg.Seal(n.Blocks[k].Epoch, n.Blocks[k].Frame); v != nil {
					n.Blocks[k].Sealed = true
					return v
				}
			}
			return nil
		},
	}
}

// NewNode creates a node with genesis (epoch, validators).
func NewNode(cfg Config, epoch idx.Epoch, vals *pos.Validators) *Node {
	n := &Node{Cfg: cfg, MainDB: kv.New(), EpochDB: map[idx.Epoch]*kv.Store{}, Input: &eventStore{m: map[hash.Event]dag.Event{}}}
	n.open()
	if err := n.Store.ApplyGenesis(&abft.Genesis{Epoch: epoch, Validators: vals}); err != nil {
		panic(err)
	}
	if err := n.bootstrap(); err != nil {
		panic(err)
	}
	return n
}

// Restart simulates a process restart: databases are copied as persisted, every in-memory object
// (store caches, vector index, election) is rebuilt from them.
func (n *Node) Restart() (*Node, error) {
	if n.Cfg.LibMemDB {
		m := &Node{Cfg: n.Cfg, MainDB: kv.New(), EpochDB: map[idx.Epoch]*kv.Store{}, Input: n.Input,
			Blocks: append([]BlockObs{}, n.Blocks...), Crit: append([]string{}, n.Crit...),
			LibMain: memorydb.New(), LibEpoch: map[idx.Epoch]kvdb.Store{}}
		copyLib := func(dst, src kvdb.Store) {
			it := src.NewIterator(nil, nil)
			defer it.Release()
			for it.Next() {
				if err := dst.Put(append([]byte{}, it.Key()...), append([]byte{}, it.Value()...)); err != nil {
					panic(err)
				}
			}
		}
		copyLib(m.LibMain, n.LibMain)
		for e, db := range n.LibEpoch {
			ep := e
			c := memorydb.NewWithDrop(func() { delete(m.LibEpoch, ep) })
			copyLib(c, db)
			m.LibEpoch[e] = c
		}
		m.open()
		var err error
		if pv := catch(func() { err = m.bootstrap() }); pv != nil {
			return m, fmt.Errorf("bootstrap panicked: %v", pv)
		}
		return m, err
	}
	m := &Node{Cfg: n.Cfg, MainDB: copyStore(n.MainDB), EpochDB: map[idx.Epoch]*kv.Store{}, Input: n.Input,
		Blocks: append([]BlockObs{}, n.Blocks...), Crit: append([]string{}, n.Crit...)}
	for e, db := range n.EpochDB {
		c := copyStore(db)
		ep := e
		c.OnDrop = func() { delete(m.EpochDB, ep) }
		m.EpochDB[e] = c
	}
	m.open()
	var err error
	pv := catch(func() { err = m.bootstrap() })
	if pv != nil {
		return m, fmt.Errorf("bootstrap panicked: %v", pv)
	}
	return m, err
}

func copyStore(s *kv.Store) *kv.Store {
	c := kv.New()
	for k, v := range s.M {
		c.M[k] = append([]byte{}, v...)
	}
	return c
}

func catch(f func()) (p interface{}) {
	defer func() {
		if r := recover(); r != nil {
			if cp, ok := r.(critPanic); ok {
				p = "crit: " + cp.err.Error()
			} else {
				p = r
			}
		}
	}()
	f()
	return nil
}

// Process feeds one event; returns the error and a description of a crit/panic, if any.
func (n *Node) Process(e dag.Event) (err error, crit string) {
	n.Input.m[e.ID()] = e
	pv := catch(func() { err = n.L.Process(e) })
	if err != nil || pv != nil {
		// a rejected event is not stored by the application
		delete(n.Input.m, e.ID())
	}
	if pv != nil {
		crit = fmt.Sprint(pv)
		n.Crit = append(n.Crit, crit)
	}
	return err, crit
}

// Build assigns the frame to a mutable event (the event is not stored).
func (n *Node) Build(e dag.MutableEvent) (err error, crit string) {
	pv := catch(func() { err = n.L.Build(e) })
	if pv != nil {
		crit = fmt.Sprint(pv)
	}
	return err, crit
}

// Reset switches to (epoch, validators) through the public Reset.
func (n *Node) Reset(epoch idx.Epoch, vals *pos.Validators) (err error, crit string) {
	pv := catch(func() { err = n.L.Reset(epoch, vals) })
	if pv != nil {
		crit = fmt.Sprint(pv)
	}
	return
}

// Namer maps event IDs to readable names.
type Namer func(hash.Event) string

// Observe returns the canonical observation of the node's state.  maxFrame bounds the root queries,
// events lists the IDs whose confirmed-on mark is read.
func (n *Node) Observe(name Namer, events []hash.Event, maxFrame int) string {
	var sb strings.Builder
	sb.WriteString(n.BlocksString(name))
	var s string
	pv := catch(func() {
		es := n.Store.GetEpochState()
		s = fmt.Sprintf("|epoch=%d vals=%s ldf=%d", es.Epoch, es.Validators.String(), n.Store.GetLastDecidedFrame())
		for f := 1; f <= maxFrame; f++ {
			rr := n.Store.GetFrameRoots(idx.Frame(f))
			var rs []string
			for _, r := range rr {
				rs = append(rs, fmt.Sprintf("%d:%s@%d", r.Slot.Validator, name(r.ID), r.Slot.Frame))
			}
			sort.Strings(rs)
			s += fmt.Sprintf("|roots%d=%v", f, rs)
		}
		s += "|conf="
		for _, id := range events {
			s += fmt.Sprintf("%s:%d,", name(id), n.Store.GetEventConfirmedOn(id))
		}
	})
	if pv != nil {
		s += fmt.Sprintf("|observe-panic:%v", pv)
	}
	sb.WriteString(s)
	if len(n.Crit) > 0 {
		sb.WriteString("|crit=" + strings.Join(n.Crit, ";"))
	}
	return sb.String()
}

// BlocksString: canonical form of the emitted block sequence (events of a block as a sorted set).
func (n *Node) BlocksString(name Namer) string {
	var sb strings.Builder
	for _, b := range n.Blocks {
		evs := make([]string, len(b.Events))
		for i, id := range b.Events {
			evs[i] = name(id)
		}
		sort.Strings(evs)
		fmt.Fprintf(&sb, "[ep%d f%d atropos=%s cheaters=%v events=%v sealed=%v]", b.Epoch, b.Frame, name(b.Atropos), b.Cheaters, evs, b.Sealed)
	}
	return sb.String()
}
