package cons

import (
	lref "verif/ref/lachesis"
)

// RoundCfg bounds the round-structured family F-round: R synchronous rounds; in the base DAG every
// validator emits one event per round whose parents are its own tip and the tips every other
// validator had at the end of the previous round.  Up to Dev deviations from that base are
// enumerated exhaustively over all (round, validator) slots.
type RoundCfg struct {
	W          WeightVec
	Epoch      uint32
	R          int
	Dev        int  // number of deviating slots / lags
	Lags       bool // offer "validator absent for L consecutive rounds" (L = 2..MaxLag) as one deviation
	MaxLag     int
	Fork       bool // additionally insert one fork event by a validator holding < 1/3 at every slot
	ForkerAny  bool // allow any validator to be the forker (C03/C05: also >= 1/3)
	DevRounds  int  // deviations only in rounds < DevRounds (0 = any round)
	ForkRounds int  // fork slots only in rounds < ForkRounds (0 = any round)
	// Sequential: the base DAG is "sequential gossip": every event takes the LATEST event of every other
	// validator (also the ones emitted earlier in the same round) instead of the previous round's tips.
	Sequential bool
	// RequireLag: only deviation sets that contain a lag are emitted; DropOnly: the non-lag deviations are
	// restricted to "drop the parent of one other validator" (vote-splitting patterns around a lagging validator)
	RequireLag bool
	DropOnly   bool
	LagRounds  int // lags start only in rounds < LagRounds (0 = any)
	// StaleReturn: additionally offer lags after which the returning validator's first event sees the other
	// validators as they were 2 or 4 rounds earlier (a node that was offline comes back with stale knowledge
	// and references old, possibly already decided, events)
	StaleReturn bool
	// DeadFork: additionally offer fork events nobody ever references
	DeadFork bool
}

type slotDev struct {
	r, v int
	opt  int // 1..n-1: drop the parent of the k-th other validator; n: see same-round lower validators; n+1: no other parents; n+2: skip; 100+L: lag of length L; 1000+10*L+age: lag of length L with a view that is age rounds old at the return
}

// BuildRounds constructs the DAG for a deviation list; forkAt >= 0 inserts a fork event after slot forkAt.
func BuildRounds(cfg RoundCfg, devs []slotDev, forkSlot int, forkVariant int) *lref.DAG {
	n := len(cfg.W.W)
	d := &lref.DAG{Weights: cfg.W.W, IDs: cfg.W.IDs, Epoch: cfg.Epoch}
	tip := make([]int, n)     // current tip per validator (-1 none)
	prevTip := make([]int, n) // tip at the end of the previous round
	prev2 := make([]int, n)   // own tip before the current tip (for forks)
	for i := range tip {
		tip[i], prevTip[i], prev2[i] = -1, -1, -1
	}
	absentUntil := make([]int, n)
	staleAt := make([]int, n) // round at which v returns with a stale view (-1 none)
	staleAge := make([]int, n)
	for i := range staleAt {
		staleAt[i] = -1
	}
	var tipHist [][]int // tips at the end of every round
	forkEv, forkBy, forkRound := -1, -1, -1
	devAt := map[[2]int]int{}
	for _, dv := range devs {
		devAt[[2]int{dv.r, dv.v}] = dv.opt
	}
	add := func(creator, sp int, others []int) int {
		ev := lref.Event{Creator: creator, Seq: 1}
		lam := 0
		if sp >= 0 {
			ev.Seq = d.Events[sp].Seq + 1
			ev.Parents = append(ev.Parents, sp)
			lam = d.Events[sp].Lamport
		}
		for _, p := range others {
			dup := p == sp
			for _, q := range ev.Parents {
				dup = dup || q == p
			}
			if dup {
				continue
			}
			ev.Parents = append(ev.Parents, p)
			if d.Events[p].Lamport > lam {
				lam = d.Events[p].Lamport
			}
		}
		ev.Lamport = lam + 1
		d.Events = append(d.Events, ev)
		return len(d.Events) - 1
	}
	slot := 0
	for r := 0; r < cfg.R; r++ {
		for v := 0; v < n; v++ {
			opt := devAt[[2]int{r, v}]
			if opt >= 1000 {
				l, age := (opt-1000)/10, (opt-1000)%10
				absentUntil[v] = r + l
				staleAt[v], staleAge[v] = r+l, age
			} else if opt >= 100 {
				absentUntil[v] = r + (opt - 100)
			}
			thisSlot := slot
			slot++
			if r < absentUntil[v] || opt == n+2 {
				continue
			}
			var others []int
			k := 0
			for u := 0; u < n; u++ {
				if u == v {
					continue
				}
				k++
				if opt == k || opt == n+1 {
					continue
				}
				p := prevTip[u]
				if staleAt[v] == r {
					p = -1
					if h := r - 1 - staleAge[v]; h >= 0 && h < len(tipHist) {
						p = tipHist[h][u]
					}
					if p >= 0 {
						others = append(others, p)
					}
					continue
				}
				if (opt == n || cfg.Sequential) && u < v && tip[u] >= 0 {
					p = tip[u]
				}
				if cfg.Sequential && opt == n {
					p = prevTip[u] // in sequential mode this option means the opposite: previous round's tips only
				}
				// validators selected by forkVariant build on the fork branch in the round after the fork
				if u == forkBy && forkEv >= 0 && r == forkRound+1 && forkVariant&(1<<uint(v)) != 0 {
					p = forkEv
				}
				if p >= 0 {
					others = append(others, p)
				}
			}
			if tip[v] < 0 && len(others) == 0 && r > 0 && false {
				continue
			}
			old := tip[v]
			id := add(v, tip[v], others)
			prev2[v] = old
			tip[v] = id
			if thisSlot == forkSlot {
				// fork: a second event by v with the same self-parent (=> same seq) but fewer other parents
				sp := prev2[v]
				var fo []int
				if len(others) > 1 {
					fo = others[1:]
				}
				if len(fo) != len(others) {
					forkEv = add(v, sp, fo)
					forkBy = v
					forkRound = r
				}
			}
		}
		copy(prevTip, tip)
		tipHist = append(tipHist, append([]int{}, tip...))
	}
	d.AssignFrames()
	return d
}

// GenRounds enumerates the family: all deviation sets of size 0..Dev, and for Fork every fork slot.
func GenRounds(cfg RoundCfg, mine func(i int) bool, visit func(d *lref.DAG, desc string)) int {
	n := len(cfg.W.W)
	var opts []int
	for k := 1; k <= n+2; k++ {
		opts = append(opts, k)
	}
	if cfg.Lags {
		for l := 2; l <= cfg.MaxLag; l++ {
			opts = append(opts, 100+l)
			if cfg.StaleReturn {
				opts = append(opts, 1000+10*l+2, 1000+10*l+4)
			}
		}
	}
	total := 0
	idx := 0
	emit := func(devs []slotDev) {
		if cfg.RequireLag {
			has := false
			for _, d := range devs {
				has = has || d.opt >= 100
			}
			if !has {
				return
			}
		}
		forks := []int{-1}
		if cfg.Fork {
			for s := 0; s < cfg.R*n; s++ {
				if cfg.ForkRounds > 0 && s >= cfg.ForkRounds*n {
					break
				}
				forks = append(forks, s)
			}
		}
		for _, fs := range forks {
			variants := []int{0}
			if fs >= 0 {
				v := fs % n
				variants = nil
				if cfg.DeadFork {
					variants = append(variants, 0)
				}
				for m := 1; m < 1<<uint(n); m++ {
					// adopters of the fork branch: single validators, and all-but-one (excluding the forker)
					if m&(1<<uint(v)) != 0 {
						continue
					}
					cnt := 0
					for k := 0; k < n; k++ {
						if m&(1<<uint(k)) != 0 {
							cnt++
						}
					}
					if cnt == 1 || cnt == n-2 {
						variants = append(variants, m)
					}
				}
				if !cfg.ForkerAny && uint64(cfg.W.W[v])*3 >= totalW(cfg.W.W) {
					continue
				}
			}
			for _, fv := range variants {
				idx++
				if mine != nil && !mine(idx) {
					continue
				}
				d := BuildRounds(cfg, devs, fs, fv)
				if d.N() > 64 || d.N() == 0 {
					continue
				}
				total++
				visit(d, descDevs(devs, fs, fv))
			}
		}
	}
	var rec func(start int, cur []slotDev)
	rec = func(start int, cur []slotDev) {
		emit(cur)
		if len(cur) == cfg.Dev {
			return
		}
		lim := cfg.R * n
		if cfg.DevRounds > 0 && cfg.DevRounds*n < lim {
			lim = cfg.DevRounds * n
		}
		for s := start; s < lim; s++ {
			for _, o := range opts {
				if o >= 100 && cfg.LagRounds > 0 && s/n >= cfg.LagRounds {
					continue
				}
				if o < 100 && cfg.DropOnly && o >= n {
					continue
				}
				rec(s+1, append(append([]slotDev{}, cur...), slotDev{s / n, s % n, o}))
			}
		}
	}
	rec(0, nil)
	return total
}

func totalW(w []uint32) uint64 {
	var t uint64
	for _, x := range w {
		t += uint64(x)
	}
	return t
}

func descDevs(devs []slotDev, fs, fv int) string {
	s := "devs="
	for _, d := range devs {
		s += "(" + itoa(d.r) + "," + itoa(d.v) + ":" + itoa(d.opt) + ")"
	}
	if fs >= 0 {
		s += " fork@" + itoa(fs) + "/" + itoa(fv)
	}
	return s
}

func itoa(i int) string {
	if i == 0 {
		return "0"
	}
	neg := i < 0
	if neg {
		i = -i
	}
	var b []byte
	for i > 0 {
		b = append([]byte{byte('0' + i%10)}, b...)
		i /= 10
	}
	if neg {
		b = append([]byte{'-'}, b...)
	}
	return string(b)
}
