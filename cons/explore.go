package cons

import (
	"fmt"
	"math/bits"
	"sort"
	"strings"

	"github.com/Fantom-foundation/lachesis-base/abft"
	"github.com/Fantom-foundation/lachesis-base/hash"
	"github.com/Fantom-foundation/lachesis-base/inter/idx"
	"github.com/Fantom-foundation/lachesis-base/utils/cachescale"
	"github.com/Fantom-foundation/lachesis-base/vecfc"
	"verif/core"
	lref "verif/ref/lachesis"
)

// Report selects which oracle categories are reported as violations of the calling property.
//
//	accept   - a valid event was rejected / crit fired              (C01, C10)
//	order    - two orders reaching the same event set observe different states (C01)
//	ref      - blocks differ from the reference implementation      (C10, C01)
//	content  - block contents / frame numbering / atropos-is-root   (C02)
//	cheaters - cheater list                                          (C03)
type Report map[string]bool

// Variants of node configuration rotated over the DAGs.
func nodeConfigs() []Config {
	tinyStore := abft.StoreConfig{Cache: abft.StoreCacheConfig{RootsNum: 2, RootsFrames: 1}}
	zeroIdx := vecfc.IndexConfig{}
	return []Config{
		DefaultConfig(),
		{Store: abft.LiteStoreConfig(), Index: vecfc.LiteConfig(), LibMemDB: true}, // over the library's own memorydb
		{Store: tinyStore, Index: zeroIdx},
		{Store: tinyStore, Index: zeroIdx, LibMemDB: true},
		{Store: abft.DefaultStoreConfig(cachescale.Identity), Index: vecfc.IndexConfig{Caches: vecfc.IndexCacheConfig{ForklessCausePairs: 2, HighestBeforeSeqSize: 16, LowestAfterSeqSize: 16}}},
	}
}

func maskList(m uint64) []int {
	var out []int
	for ; m != 0; m &= m - 1 {
		out = append(out, bits.TrailingZeros64(m))
	}
	return out
}

// CheckBlocks applies the graph-based monitors to the node's emitted blocks (single epoch).
// It returns (category, message) of the first problem whose category the caller judges (rep == nil: any);
// problems of other categories are skipped so that they cannot mask the judged ones.
func CheckBlocks(d *lref.DAG, n *Node, byID map[hash.Event]int, rep Report) (string, string) {
	judged := func(cat string) bool {
		return rep == nil || rep[strings.SplitN(cat, "/", 2)[0]]
	}
	var delivered uint64
	for bi, b := range n.Blocks {
		if int(b.Frame) != bi+1 && judged("content") {
			return "content/frame-numbering", fmt.Sprintf("block #%d has frame %d (frames must be consecutive from 1)", bi+1, b.Frame)
		}
		at, ok := byID[b.Atropos]
		if !ok {
			if judged("content") {
				return "content/atropos-unknown", fmt.Sprintf("block #%d: atropos %s is not an event of the DAG", bi+1, b.Atropos.String())
			}
			continue
		}
		if !d.IsRootOf(at, int(b.Frame)) && judged("content") {
			return "content/atropos-not-root", fmt.Sprintf("block #%d: atropos e%d is not a root of frame %d", bi+1, at, b.Frame)
		}
		var got uint64
		for _, id := range b.Events {
			i, ok := byID[id]
			if !ok {
				if judged("content") {
					return "content/unknown-event", fmt.Sprintf("block #%d delivered an unknown event", bi+1)
				}
				continue
			}
			if (got&(1<<uint(i)) != 0 || delivered&(1<<uint(i)) != 0) && judged("content") {
				return "content/delivered-twice", fmt.Sprintf("block #%d: event e%d delivered twice in the epoch", bi+1, i)
			}
			got |= 1 << uint(i)
		}
		want := d.Anc(at) &^ delivered
		if got != want && judged("content") {
			return "content/not-new-ancestry", fmt.Sprintf("block #%d (atropos e%d): delivered %v, new ancestry of the atropos is %v", bi+1, at, maskList(got), maskList(want))
		}
		delivered |= got
		// cheaters: canonical order, exactly the validators with a fork in the atropos' ancestry
		var wantCh []idx.ValidatorID
		for _, v := range d.CanonOrder() {
			if d.ForkSeen(at, v) {
				wantCh = append(wantCh, idx.ValidatorID(d.IDs[v]))
			}
		}
		if fmt.Sprint(wantCh) != fmt.Sprint(b.Cheaters) && judged("cheaters") {
			return "cheaters/list", fmt.Sprintf("block #%d (atropos e%d): cheaters %v, visible forkers in canonical order %v", bi+1, at, b.Cheaters, wantCh)
		}
	}
	return "", ""
}

// CheckDAG explores every parents-first order of one single-epoch DAG on the real code.
func CheckDAG(c *core.Ctx, d *lref.DAG, desc string, rep Report, cfg Config, maxIdeals int) {
	evs, byID := Events(d)
	vals := Validators(d)
	name := func(id hash.Event) string {
		if i, ok := byID[id]; ok {
			return fmt.Sprintf("e%d", i)
		}
		return "?" + id.String()
	}
	maxFrame := 0
	for _, e := range d.Events {
		if e.Frame > maxFrame {
			maxFrame = e.Frame
		}
	}
	byz := d.ForkersWeight(d.Full())*3 >= d.Total()
	type seenObs struct {
		obs  string
		path []int
	}
	table := map[uint64]seenObs{}
	// violate reports a mismatch of a category this check judges and returns true; mismatches of the other
	// categories are only counted (they belong to a sibling check) and the exploration goes on
	violate := func(cat, sig string, replay interface{}, format string, a ...interface{}) bool {
		if rep[cat] {
			c.Violation(sig, replay, format, a...)
			return true
		}
		c.Count("other_category_mismatches", 1)
		return false
	}
	// judge processes the events of the downward-closed set nm in the parents-first order seq on a fresh instance
	// and applies every oracle; it returns false when the exploration below this state should stop
	// feed processes events seq[from:] on node (which already processed seq[:from]); false = an event was refused
	feed := func(node *Node, seq []int, from int) bool {
		for k := from; k < len(seq); k++ {
			x := seq[k]
			err, crit := node.Process(evs[x])
			if err != nil || crit != "" {
				if !byz {
					rp := map[string]interface{}{"dag": d.String(), "family": desc, "order": seq[:k+1]}
					violate("accept", "accept/rejected-valid-event", rp, "Process(e%d) = %v %s after %v; the event set is valid (forkers hold < 1/3) [%s]", x, err, crit, seq[:k], rp)
				} else {
					c.Count("byzantine_rejections", 1)
				}
				return false
			}
		}
		return true
	}
	var evaluate func(node *Node, seq []int, nm uint64) bool
	judge := func(seq []int, nm uint64) bool {
		node := NewNode(cfg, idx.Epoch(d.Epoch), vals)
		if !feed(node, seq[:len(seq)-1], 0) {
			return false
		}
		if !byz {
			// Build of the edge's event must assign the frame the reference computes (the highest allowed one):
			// events that merely CLAIM the reference's frames would hide a frame rule that allows too much
			x := seq[len(seq)-1]
			probe := MakeEvent(d, x, evs, 0)
			if err, crit := node.Build(probe); err != nil || crit != "" || int(probe.Frame()) != d.Events[x].Frame {
				rp := map[string]interface{}{"dag": d.String(), "family": desc, "order": seq}
				if violate("ref", "ref/build-frame", rp, "Build(e%d) after %v assigns frame %d (%v %s), the reference computes %d [%s]", x, seq[:len(seq)-1], probe.Frame(), err, crit, d.Events[x].Frame, rp) {
					return false
				}
			}
			c.Count("build_frame_comparisons", 1)
		}
		return feed(node, seq, len(seq)-1) && evaluate(node, seq, nm)
	}
	// evaluate applies every oracle to an instance that processed exactly the events of nm in the order seq
	evaluate = func(node *Node, seq []int, nm uint64) bool {
		replay := func() interface{} {
			return map[string]interface{}{"dag": d.String(), "family": desc, "order": seq}
		}
		var ids []hash.Event
		for _, x := range maskList(nm) {
			ids = append(ids, evs[x].ID())
		}
		obs := node.Observe(name, ids, maxFrame+1)
		if prev, ok := table[nm]; ok {
			if prev.obs != obs && byz {
				// forkers hold >= 1/3 of the weight: outside the precondition of the agreement properties
				c.Count("byzantine_order_differences_not_judged", 1)
			} else if prev.obs != obs {
				if violate("order", "order/state-depends-on-order", map[string]interface{}{"dag": d.String(), "family": desc, "order_a": prev.path, "order_b": seq},
					"the same event set %v processed in orders %v and %v yields different observations:\n  A: %s\n  B: %s\n  dag: %s", maskList(nm), prev.path, seq, prev.obs, obs, d.String()) {
					return false
				}
			}
		} else {
			table[nm] = seenObs{obs, seq}
		}
		// graph-based monitors on the emitted blocks
		if cat, msg := CheckBlocks(d, node, byID, rep); cat != "" {
			if violate(strings.SplitN(cat, "/", 2)[0], cat, replay(), "%s [%s]", msg, replay()) {
				return false
			}
		}
		// store state: LDF equals the number of blocks, roots per frame equal the reference's
		if int(node.Store.GetLastDecidedFrame()) != len(node.Blocks) {
			if violate("content", "content/ldf", replay(), "last decided frame %d after %d blocks [%s]", node.Store.GetLastDecidedFrame(), len(node.Blocks), replay()) {
				return false
			}
		}
		for f := 1; f <= maxFrame+1; f++ {
			var want []string
			for _, r := range d.Roots(nm, f) {
				want = append(want, fmt.Sprintf("%d:e%d", d.IDs[d.Events[r].Creator], r))
			}
			var got []string
			for _, r := range node.Store.GetFrameRoots(idx.Frame(f)) {
				got = append(got, fmt.Sprintf("%d:%s", r.Slot.Validator, name(r.ID)))
			}
			sort.Strings(want)
			sort.Strings(got)
			if fmt.Sprint(want) != fmt.Sprint(got) {
				if violate("ref", "ref/frame-roots", replay(), "roots of frame %d: %v, reference %v [%s]", f, got, want, replay()) {
					return false
				}
				break
			}
		}
		// independent reference: decided blocks
		refBlocks, incons := d.Blocks(nm, 0)
		if incons == "" && !byz {
			ok := len(refBlocks) == len(node.Blocks)
			for i := 0; ok && i < len(refBlocks); i++ {
				at, known := byID[node.Blocks[i].Atropos]
				ok = known && at == refBlocks[i].Atropos
			}
			if !ok {
				var rb []string
				for _, b := range refBlocks {
					rb = append(rb, fmt.Sprintf("f%d:e%d", b.Frame, b.Atropos))
				}
				if violate("ref", "ref/blocks-differ", replay(), "blocks %s, reference %v [%s]", node.BlocksString(name), rb, replay()) {
					return false
				}
			}
			c.Count("ref_block_comparisons", int64(len(refBlocks)))
		} else {
			c.Count("ref_skipped_byzantine", 1)
		}
		return true
	}
	ideals, edges, complete := Lattice(d, maxIdeals, c.OutOfBudget, func(path []int, e int, nm uint64) bool {
		return judge(append(append([]int{}, path...), e), nm)
	})
	// The lattice reaches every event set along every last event, but below that along ONE path.  State that the
	// observation does not show (the index's branch numbering) can make an early swap matter only much later, so
	// for every fork sibling x the complete order "index order, but x as early as its parents allow" (and, if x
	// has no children, "x last") is run as well, judged after every event from x's new position on.
	if d.ForkersWeight(d.Full()) > 0 && !c.OutOfBudget() {
		n := d.N()
		hasChild := make([]bool, n)
		for _, e := range d.Events {
			for _, p := range e.Parents {
				hasChild[p] = true
			}
		}
		runOrder := func(order []int, from int) {
			node := NewNode(cfg, idx.Epoch(d.Epoch), vals)
			var m uint64
			for k, x := range order {
				m |= 1 << uint(x)
				if !feed(node, order[:k+1], k) {
					return
				}
				if k >= from {
					c.Count("displaced_sibling_order_states", 1)
					if !evaluate(node, append([]int{}, order[:k+1]...), m) {
						return
					}
				}
			}
		}
		for x := range d.Events {
			sib := false
			for y := range d.Events {
				sib = sib || (y != x && d.Events[y].Creator == d.Events[x].Creator && d.Events[y].Seq == d.Events[x].Seq)
			}
			if !sib || c.OutOfBudget() {
				continue
			}
			pos := 0 // x goes right after its last parent
			for _, p := range d.Events[x].Parents {
				if p+1 > pos {
					pos = p + 1
				}
			}
			if pos < x {
				var order []int
				for i := 0; i < n; i++ {
					if i == pos {
						order = append(order, x)
					}
					if i != x {
						order = append(order, i)
					}
				}
				runOrder(order, pos)
			}
			if !hasChild[x] && x != n-1 {
				var order []int
				for i := 0; i < n; i++ {
					if i != x {
						order = append(order, i)
					}
				}
				runOrder(append(order, x), x)
			}
		}
	}
	c.Count("states", int64(ideals))
	c.Count("transitions", int64(edges))
	c.Count("traces_validated_against_impl", int64(edges))
	c.Count("dags", 1)
	if !complete {
		c.Count("dags_lattice_incomplete", 1)
	}
	// vacuity statistics
	full, _ := d.Blocks(d.Full(), 0)
	if len(full) >= 1 {
		c.Count("dags_with_decided_frame", 1)
	}
	if len(full) >= 3 {
		c.Count("dags_with_3_decided_frames", 1)
	}
	if d.ForkersWeight(d.Full()) > 0 {
		c.Count("dags_with_forks", 1)
	}
	for i, e := range d.Events {
		if sp := d.SelfParent(i); sp >= 0 && e.Frame-d.Events[sp].Frame > 1 {
			c.Count("dags_with_frame_jump", 1)
			break
		}
	}
	for _, b := range full {
		if len(b.Cheaters) > 0 {
			c.Count("dags_with_cheater_block", 1)
			break
		}
	}
}

// ConsFamilies describes what ExploreConsensus enumerates for a tier.
type ConsFamilies struct {
	All      []GenCfg
	Rounds   []RoundCfg
	Sleepers []SleeperCfg
	NoCorpus bool
	// Then is explored after this stage (the thorough tier is: the whole quick tier first, then the targeted
	// thorough families, then the big ones, so that a wall-clock cap only ever cuts the tail)
	Then *ConsFamilies
}

// OnlyForks drops every family without fork events (used by the cheater-list check).
func (f ConsFamilies) OnlyForks() ConsFamilies {
	var g ConsFamilies
	for _, a := range f.All {
		if a.ForkBudget > 0 {
			g.All = append(g.All, a)
		}
	}
	for _, r := range f.Rounds {
		if r.Fork {
			g.Rounds = append(g.Rounds, r)
		}
	}
	for _, sl := range f.Sleepers {
		if sl.Forks && !(sl.OnlyLate && !sl.NestedForks) { // the pure late-fork family targets vote bookkeeping (C01/C10)
			g.Sleepers = append(g.Sleepers, sl)
		}
	}
	g.NoCorpus = f.NoCorpus
	if f.Then != nil {
		t := f.Then.OnlyForks()
		g.Then = &t
	}
	return g
}

// Light drops the two heaviest quick families (kept by C10/C01, which are sensitive to them).
func (f ConsFamilies) Light() ConsFamilies {
	var g ConsFamilies
	g.All = f.All
	for _, r := range f.Rounds {
		if r.Dev >= 2 {
			continue
		}
		g.Rounds = append(g.Rounds, r)
	}
	for _, sl := range f.Sleepers {
		if !sl.OnlyLate {
			g.Sleepers = append(g.Sleepers, sl)
		}
	}
	g.NoCorpus = f.NoCorpus
	g.Then = f.Then // later stages (thorough tier only) stay complete
	return g
}

func DefaultConsFamilies(quick bool, byzantine bool) ConsFamilies {
	q := defaultConsFamilies(true, byzantine)
	if quick {
		return q
	}
	big := defaultConsFamilies(false, byzantine)
	// stage 2: the targeted thorough families (sleepers, lag/fork round families built for specific election
	// situations); stage 3: the big enumerations
	targeted := ConsFamilies{Sleepers: big.Sleepers, NoCorpus: true}
	rest := ConsFamilies{All: big.All, NoCorpus: true}
	for _, r := range big.Rounds {
		if r.RequireLag || r.ForkRounds > 0 {
			targeted.Rounds = append(targeted.Rounds, r)
		} else {
			rest.Rounds = append(rest.Rounds, r)
		}
	}
	targeted.Then = &rest
	q.Then = &targeted
	return q
}

func defaultConsFamilies(quick bool, byzantine bool) ConsFamilies {
	var f ConsFamilies
	all := func(w WeightVec, n, forks int, prev bool) {
		f.All = append(f.All, GenCfg{Weights: w.W, IDs: w.IDs, Epoch: 1, N: n, ForkBudget: forks, PrevParents: prev, MaxLevelSet: 200000})
	}
	if quick {
		all(WV(3, 1), 7, 0, true)
		all(WVids([]uint32{1, 3}, []uint32{7, 9}), 6, 0, false)
		all(WV(5, 1, 1), 5, 0, false)
		all(WV(5, 1, 1), 5, 1, false)
		all(WV(1, 1), 5, 0, false)
		all(WV(1, 1, 1), 4, 1, false)
		f.Rounds = []RoundCfg{
			{W: WV(1, 1, 1, 1), Epoch: 1, R: 8, Dev: 1, Lags: true, MaxLag: 5},
			{W: WV(2, 1, 1, 1), Epoch: 1, R: 8, Dev: 0, Fork: true},
			{W: WV(2, 1, 1), Epoch: 1, R: 10, Dev: 1, DevRounds: 2, Fork: true, ForkRounds: 3}, // early forks, enough rounds for blocks that list the cheater
			{W: WV(3, 1), Epoch: 1, R: 6, Dev: 1, Lags: true, MaxLag: 3},
			{W: WV(1, 1, 1), Epoch: 1, R: 7, Dev: 1},
			{W: WV(2, 1, 1), Epoch: 1, R: 7, Dev: 1, Lags: true, MaxLag: 3, Fork: true}, // rich in weighted ties / split votes
			{W: WV(1, 1, 1, 1), Epoch: 1, R: 7, Dev: 2, DevRounds: 3},                   // measured: contains DAGs whose blocks depend on the tie rule
			// an early lag and then enough rounds to decide the frames the returning (frame-jumping) root belongs to
			{W: WV(1, 1, 1, 1), Epoch: 1, R: 12, Dev: 1, Lags: true, MaxLag: 4, DevRounds: 3},
			{W: WV(1, 1, 1, 1), Epoch: 1, R: 12, Dev: 1, Lags: true, MaxLag: 4, DevRounds: 3, Sequential: true},
		}
		// a validator that sleeps and returns with arbitrarily stale knowledge, with and without an initial fork
		f.Sleepers = []SleeperCfg{
			{W: WV(1, 1, 1, 1), Epoch: 1, MinSleep: 3, MaxSleep: 4, Tail: 4, Forks: true, Rots: 1},
			// split votes on the first frame (one validator misses another's first event) + a sleeper
			{W: WV(1, 1, 1, 1), Epoch: 1, MinSleep: 2, MaxSleep: 4, Tail: 4, DropInFirstRound: true, Rots: 2},
			// a fork during the sleeping phase whose two siblings are roots of one frame and vote differently
			// (one of them lacks one validator's tip), while an election is still open
			{W: WV(1, 1, 1, 1), Epoch: 1, MinSleep: 2, MaxSleep: 2, Tail: 4, Forks: true, LateForks: true, LateForkMin: 1, LateForkMax: 1, OnlyLate: true, Rots: 2},
			// one forker with three branches: an orphan sibling plus a fork of the surviving branch, and three
			// different first events (one of them never referenced)
			{W: WV(1, 1, 1, 1), Epoch: 1, MinSleep: 2, MaxSleep: 2, Tail: 4, Forks: true, NestedForks: true, LateForkMin: 1, LateForkMax: 1, OnlyLate: true, Rots: 1},
		}
		if byzantine {
			// two light forkers whose canonical order (by weight) is not their ID order, heavy honest validators
			f.Sleepers = append(f.Sleepers, SleeperCfg{W: WV(1, 2, 10, 10), Epoch: 1, MinSleep: 2, MaxSleep: 2, Tail: 4, Forks: true, TwoForkers: true, Rots: 1})
			all(WV(1, 1, 1), 5, 2, false)
			all(WV(3, 1), 5, 2, false)
			f.Rounds = append(f.Rounds, RoundCfg{W: WV(1, 1, 1), Epoch: 1, R: 6, Dev: 0, Fork: true, ForkerAny: true})
		}
	} else {
		all(WV(3, 1), 9, 0, true)
		all(WV(3, 1), 7, 1, true)
		all(WVids([]uint32{1, 3}, []uint32{7, 9}), 8, 0, true)
		all(WV(5, 1, 1), 6, 1, false)
		all(WV(5, 1, 1), 7, 0, false)
		all(WV(1, 1), 8, 0, true)
		all(WV(1, 1, 1), 6, 1, false)
		all(WV(4, 4, 1), 6, 1, false)
		f.Rounds = []RoundCfg{
			{W: WV(1, 1, 1, 1), Epoch: 1, R: 8, Dev: 2, Lags: true, MaxLag: 5},
			{W: WV(1, 1, 1, 1), Epoch: 1, R: 9, Dev: 1, Lags: true, MaxLag: 6, Fork: true},
			{W: WV(2, 1, 1, 1), Epoch: 1, R: 8, Dev: 1, Lags: true, MaxLag: 4, Fork: true},
			{W: WV(1, 2, 3, 4), Epoch: 1, R: 8, Dev: 1, Lags: true, MaxLag: 4, Fork: true},
			{W: WV(11, 11, 11, 67), Epoch: 1, R: 7, Dev: 1, Lags: true, MaxLag: 4},
			{W: WV(1<<29, 1<<29, 1<<30-1), Epoch: 1, R: 8, Dev: 1, Lags: true, MaxLag: 3},
			{W: WV(3, 1), Epoch: 1, R: 8, Dev: 2, Lags: true, MaxLag: 4},
			{W: WV(1, 1, 1), Epoch: 1, R: 8, Dev: 2},
			{W: WV(2, 1, 1), Epoch: 1, R: 7, Dev: 2, Lags: true, MaxLag: 3, Fork: true},
			{W: WV(1, 1, 1, 1), Epoch: 1, R: 7, Dev: 2},
			{W: WV(1, 2, 3, 4), Epoch: 1, R: 7, Dev: 2},
			// a lagging validator (frame-jumping root) with vote-splitting drops around it, enough rounds to decide
			{W: WV(1, 1, 1, 1), Epoch: 1, R: 12, Dev: 2, Lags: true, MaxLag: 4, DevRounds: 5, LagRounds: 3, RequireLag: true, DropOnly: true, Sequential: true},
			{W: WV(1, 1, 1, 1), Epoch: 1, R: 12, Dev: 2, Lags: true, MaxLag: 4, DevRounds: 5, LagRounds: 3, RequireLag: true, DropOnly: true},
			{W: WV(1, 1, 1, 1), Epoch: 1, R: 11, Dev: 3, Lags: true, MaxLag: 3, DevRounds: 4, LagRounds: 2, RequireLag: true, DropOnly: true, Sequential: true},
			// an early fork by a <1/3 validator whose two siblings are roots of one frame, in an election made close by one dropped parent
			{W: WV(1, 1, 1, 1), Epoch: 1, R: 8, Dev: 1, DevRounds: 2, DropOnly: true, Fork: true, ForkRounds: 2},
			{W: WV(1, 1, 1, 1), Epoch: 1, R: 8, Dev: 1, DevRounds: 2, DropOnly: true, Fork: true, ForkRounds: 2, Sequential: true},
		}
		f.Sleepers = []SleeperCfg{
			{W: WV(1, 1, 1, 1), Epoch: 1, MinSleep: 3, MaxSleep: 6, Tail: 5, Forks: true},
			{W: WV(1, 1, 1, 1), Epoch: 1, MinSleep: 2, MaxSleep: 5, Tail: 5, DropInFirstRound: true},
			{W: WV(2, 1, 1, 1), Epoch: 1, MinSleep: 2, MaxSleep: 4, Tail: 4, DropInFirstRound: true, Rots: 2},
			{W: WV(1, 1, 1, 1), Epoch: 1, MinSleep: 1, MaxSleep: 3, Tail: 4, Forks: true, LateForks: true, LateForkMin: 1, LateForkMax: 3, OnlyLate: true, Rots: 2},
			{W: WV(2, 1, 1, 1), Epoch: 1, MinSleep: 2, MaxSleep: 3, Tail: 4, Forks: true, LateForks: true, LateForkMin: 1, LateForkMax: 3, OnlyLate: true, Rots: 1},
			{W: WV(1, 1, 1, 1), Epoch: 1, MinSleep: 2, MaxSleep: 3, Tail: 4, Forks: true, NestedForks: true, LateForkMin: 1, LateForkMax: 2, OnlyLate: true, Rots: 2},
			{W: WV(2, 1, 1, 1), Epoch: 1, MinSleep: 2, MaxSleep: 2, Tail: 4, Forks: true, NestedForks: true, LateForkMin: 1, LateForkMax: 2, OnlyLate: true, Rots: 1},
		}
		if byzantine {
			all(WV(1, 1, 1), 6, 2, false)
			all(WV(3, 1), 6, 2, false)
			f.Rounds = append(f.Rounds, RoundCfg{W: WV(1, 1, 1), Epoch: 1, R: 7, Dev: 1, Fork: true, ForkerAny: true},
				RoundCfg{W: WV(1, 1, 1, 1), Epoch: 1, R: 7, Dev: 1, Fork: true, ForkerAny: true})
		}
	}
	return f
}

// ExploreConsensus runs CheckDAG over the families, sharded over the worker processes.
func ExploreConsensus(c *core.Ctx, fam ConsFamilies, rep Report) {
	cfgs := nodeConfigs()
	item := 0
	capHit := false
	stage := 0
	for st := &fam; st != nil; st = st.Then {
		stage++
		if exploreStage(c, *st, rep, cfgs, &item) {
			capHit = true
		}
		c.Set(fmt.Sprintf("stage%d_complete", stage), !c.OutOfBudget())
	}
	c.Set("exhaustive", !capHit && !c.Capped())
	// vacuity guards: election situations the reference went through while comparing
	c.Count("ref_election_ties", int64(lref.Stat.Ties))
	c.Count("ref_election_split_votes", int64(lref.Stat.SplitVotes))
	c.Count("ref_election_no_decisions", int64(lref.Stat.NoDecisions))
	c.Count("ref_atropos_not_first_validator", int64(lref.Stat.AtroposNotFirst))
}

func exploreStage(c *core.Ctx, fam ConsFamilies, rep Report, cfgs []Config, pitem *int) (capHit bool) {
	item := *pitem
	defer func() { *pitem = item }()
	// richest families first (corpus, sleepers, rounds, then the small complete enumerations): if the wall-clock
	// budget is hit on a loaded machine, it cuts the DAGs that are least likely to matter
	if !fam.NoCorpus && (len(fam.Sleepers) > 0 || len(fam.Rounds) > 0) {
		cd, cn := CorpusDAGs()
		for i, d := range cd {
			item++
			if !c.Mine(item) || c.OutOfBudget() {
				continue
			}
			c.Count("corpus_dags", 1)
			CheckDAG(c, d, cn[i], rep, cfgs[item%len(cfgs)], 200000)
		}
	}
	for _, sl := range fam.Sleepers {
		sl := sl
		GenSleeper(sl, func(i int) bool { return c.Mine(i) && !c.OutOfBudget() }, func(d *lref.DAG, desc string) {
			item++
			c.Count("sleeper_family_dags", 1)
			CheckDAG(c, d, fmt.Sprintf("F-sleeper weights=%v %s", sl.W.W, desc), rep, cfgs[item%len(cfgs)], 50000)
			if item%1501 == 1 {
				c.Sample(map[string]interface{}{"dag": d.String(), "family": desc, "parents_first_orders": CountOrders(d, 200000)})
			}
		})
	}
	for _, r := range fam.Rounds {
		r := r
		GenRounds(r, func(i int) bool { return c.Mine(i) && !c.OutOfBudget() }, func(d *lref.DAG, desc string) {
			item++
			CheckDAG(c, d, fmt.Sprintf("F-round weights=%v R=%d %s", r.W.W, r.R, desc), rep, cfgs[item%len(cfgs)], 50000)
			if item%301 == 1 {
				c.Sample(map[string]interface{}{"dag": d.String(), "family": desc, "parents_first_orders": CountOrders(d, 200000)})
			}
		})
	}
	for _, g := range fam.All {
		_, capped := GenAll(g, 3, func(d *lref.DAG) {
			item++
			if !c.Mine(item) || c.OutOfBudget() {
				return
			}
			CheckDAG(c, d, fmt.Sprintf("F-all/F-fork weights=%v N=%d forks<=%d", g.Weights, g.N, g.ForkBudget), rep, cfgs[item%len(cfgs)], 50000)
			if item%4001 == 1 {
				c.Sample(map[string]interface{}{"dag": d.String(), "parents_first_orders": CountOrders(d, 200000)})
			}
		})
		if capped {
			capHit = true
		}
	}
	return capHit
}
