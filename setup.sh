#!/bin/bash
# Offline setup: warm the Go build cache for every harness so quick checks start fast.
set -u
cd /verif
export GOFLAGS=-mod=mod GOPROXY=off GOSUMDB=off GOTOOLCHAIN=local
mkdir -p .work/bin evidence replays
cat /repo/go.sum go.sum.extra 2>/dev/null | sort -u > go.sum; cp /repo/go.sum .work/repo.go.sum
go build ./core/ || exit 1
for d in harness/*/; do
  lc=$(basename "$d")
  if [ -x "$d/prebuild.sh" ]; then
    "$d/prebuild.sh" > .work/prebuild-$lc.log 2>&1 || { echo "setup: prebuild $lc failed"; tail -5 .work/prebuild-$lc.log; }
    go build -tags verif -overlay "/verif/.work/$lc/overlay.json" -o ".work/bin/$lc" "./$d" || echo "setup: build $lc failed"
  else
    go build -tags verif -o ".work/bin/$lc" "./$d" || echo "setup: build $lc failed"
  fi
done
echo setup done
