#!/bin/bash
# mut2.sh <ID> <abs patch> [tier]  — like mut.sh but safe to use while a sweep runs: the patch is applied to
# /repo only while the harness is built (under the exclusive repo lock), evidence/replays go to /tmp.
ID="$1"; P="$2"; T="${3:-quick}"; tag="m2-$$"
cd /verif
exec 6> .work/repo.lock; flock -x 6
( cd /repo; git diff --quiet ) || { echo "repo dirty"; exit 9; }
git -C /repo apply "$P" || { echo "patch does not apply"; exit 9; }
VERIF_SEED_SWEEP=1 VERIF_BUILD_ONLY=1 VERIF_BIN="$tag" ./run.sh $ID $T > /tmp/$tag.build 2>&1; brc=$?
git -C /repo checkout -- . ; git -C /repo clean -fdq
flock -u 6
[ $brc -ne 0 ] && { echo "build failed"; tail -5 /tmp/$tag.build; exit 2; }
VERIF_EVIDENCE_DIR=/tmp/seed-evidence VERIF_REPLAY_DIR=/tmp/seed-replays .work/bin/$tag --tier $T > /tmp/$tag.out 2>&1; rc=$?
rm -f .work/bin/$tag .work/bin/$tag-race
grep -E "VIOLATION|BUILD-FAILED|ENGINE" /tmp/$tag.out | head -3
grep -A2 "VIOLATION" /tmp/$tag.out | grep -v VIOLATION | head -3 | cut -c1-300
tail -1 /tmp/$tag.out
echo "exit=$rc"
