#!/bin/bash
# seeds_run.sh [tier] [name-glob]  — runs every seeded change under /verif/seeded against the check of its
# property: apply the patch to /repo only while the harness is being built, revert at once, then run the
# built binary with its evidence/replays redirected to /tmp.  Results: seeded/RESULTS.tsv and meta.json.
TIER="${1:-quick}"; GLOB="${2:-*}"
cd /verif
exec 8>/tmp/seeds_run.lock; flock 8
OUT=/verif/seeded/RESULTS.tsv; touch $OUT
for d in seeded/$GLOB/; do
  name=$(basename $d); prop=${name%%-*}
  [ -f "$d/patch.diff" ] || continue
  lc=$(echo $prop | tr 'A-Z' 'a-z'); [ -d harness/$lc ] || { echo "$name no-check"; continue; }
  exec 6> .work/repo.lock; flock -x 6
  ( cd /repo; git diff --quiet ) || { echo "repo dirty, stopping"; exit 9; }
  if ! git -C /repo apply --check "/verif/$d/patch.diff" 2>/dev/null; then v="patch-does-not-apply"; sig=""; flock -u 6; else
    git -C /repo apply "/verif/$d/patch.diff"
    VERIF_SEED_SWEEP=1 VERIF_BUILD_ONLY=1 VERIF_BIN="seed-$name" ./run.sh $prop $TIER > /tmp/seed-$name.build 2>&1; brc=$?
    git -C /repo checkout -- . ; git -C /repo clean -fdq
    flock -u 6
    if [ $brc -ne 0 ]; then v="build-failed"; sig=""; else
      VERIF_EVIDENCE_DIR=/tmp/seed-evidence VERIF_REPLAY_DIR=/tmp/seed-replays .work/bin/seed-$name --tier $TIER > /tmp/seed-$name.out 2>&1; rc=$?
      sig=$(grep -m1 "signature=" /tmp/seed-$name.out | sed 's/.*signature=//')
      case $rc in 0) v="MISSED";; 1) v="DETECTED";; *) v="engine-error-$rc";; esac
    fi
    rm -f .work/bin/seed-$name
  fi
  echo -e "$name\t$prop\t$TIER\t$v\t$sig\t$(git -C /repo rev-parse --short HEAD)" | tee -a $OUT
  python3 - "$d/meta.json" "$TIER" "$v" "$sig" <<'PY'
import json,sys
p,tier,v,sig=sys.argv[1:5]
try: m=json.load(open(p))
except Exception: m={}
old=m.get('detected_by_check') or {}
m['detected_by_check']={"tier":tier,"verdict":v,"signature":sig}
if old.get('note') and old.get('verdict')==v:
    m['detected_by_check']['note']=old['note']
json.dump(m,open(p,'w'),indent=1)
PY
done
