#!/bin/bash
# seedq.sh <queue file> : runs confirm_seed.sh for every line "<PROP> <dir> <pkg> <run> <name>", serialised by a lock.
exec 9>/tmp/seedq.lock
flock 9
while read -r prop dir pkg run name; do
  [ -z "$prop" ] && continue
  [ -d "/verif/seeded/$name" ] && { echo "$name already confirmed"; continue; }
  /verif/confirm_seed.sh "$prop" "$dir" "$pkg" "$run" "$name"
done < "$1"
